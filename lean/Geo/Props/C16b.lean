/-
  C16 (second file) — `PolygonTensor.contains`, `SegmentTensor.contains` and `Triangle.contains` as modelled in
  Geo/Shapes.lean (glue) over the regenerated arithmetic and boolean combinations of Geo/Gen/Shapes.lean equal the
  independent Cartesian specification of Geo/Spec/Shapes.lean — for EVERY vertex list and every query point.
-/
import Geo.Shapes
import Geo.Proofs.Lemmas
import Mathlib.Algebra.Order.Field.Basic
import Mathlib.Tactic.Linarith
import Mathlib.Tactic.Positivity
import Mathlib.Tactic.FieldSimp
namespace Geo
open Spec
variable {F : Type} [Field F] [LinearOrder F] [IsStrictOrderedRing F]

/-- Gram determinant of two coordinate rows -/
def gramDet (a b : Nat → F) : F := dot3 a a * dot3 b b - dot3 a b * dot3 a b

/-- the quantities `x`, `y` of `SegmentTensor.contains` -/
def segX (a b X : Nat → F) : F :=
  let row : Nat → Nat → F := fun i => if i = 0 then a else b
  let gram : Nat → Nat → F := fun i j => dot3 (row i) (row j)
  let gb : Nat → F := fun k => gram k Gen.seg_gram_cols.1
  let gc : Nat → F := fun k => gram k Gen.seg_gram_cols.2
  let d : Nat → F := fun k => dot3 (row k) X
  let cd := Gen.seg_cd gb gc d
  let bd := Gen.seg_bd gb gc d
  Gen.seg_x (Gen.seg_z cd bd) 0 (Gen.seg_w cd bd) 0
def segY (a b X : Nat → F) : F :=
  let row : Nat → Nat → F := fun i => if i = 0 then a else b
  let gram : Nat → Nat → F := fun i j => dot3 (row i) (row j)
  let gb : Nat → F := fun k => gram k Gen.seg_gram_cols.1
  let gc : Nat → F := fun k => gram k Gen.seg_gram_cols.2
  let d : Nat → F := fun k => dot3 (row k) X
  let cd := Gen.seg_cd gb gc d
  let bd := Gen.seg_bd gb gc d
  Gen.seg_y (Gen.seg_w cd bd) 0

theorem segContains_eq (a b l X : Nat → F) :
    segContains a b l X = (decide (dot3 l X = 0) && (!(decide (segX a b X = 0)) || !(decide (segY a b X = 0)))
      && decide (0 ≤ segX a b X) && decide (segX a b X ≤ segY a b X)) := by
  have h : segContains a b l X = Gen.seg_verdict (decide (dot3 l X = 0)) (decide (segX a b X = 0)) (decide (segY a b X = 0))
      (segX a b X) (segY a b X) 0 := rfl
  rw [h]
  simp only [Gen.seg_verdict, add_zero]

theorem segX_comb (a b X : Nat → F) (al be : F) (hX : ∀ k, k < 3 → X k = al * a k + be * b k) :
    segX a b X = be * (al + be) * (gramDet a b * gramDet a b) := by
  simp [segX, gramDet, Gen.seg_x, Gen.seg_z, Gen.seg_w, Gen.seg_cd, Gen.seg_bd, Gen.seg_gram_cols, dot3, hX 0 (by omega), hX 1 (by omega), hX 2 (by omega)]
  ring
theorem segY_comb (a b X : Nat → F) (al be : F) (hX : ∀ k, k < 3 → X k = al * a k + be * b k) :
    segY a b X = (al + be) * (al + be) * (gramDet a b * gramDet a b) := by
  simp [segY, gramDet, Gen.seg_y, Gen.seg_z, Gen.seg_w, Gen.seg_cd, Gen.seg_bd, Gen.seg_gram_cols, dot3, hX 0 (by omega), hX 1 (by omega), hX 2 (by omega)]
  ring

theorem segContains_comb (a b l : Nat → F) (al be : F) (hD : gramDet a b ≠ 0)
    (X : Nat → F) (hX : ∀ k, k < 3 → X k = al * a k + be * b k) (hl : dot3 l X = 0) :
    segContains a b l X = decide (al + be ≠ 0 ∧ 0 ≤ be * (al + be) ∧ be * (al + be) ≤ (al + be) * (al + be)) := by
  have hD2 : 0 < gramDet a b * gramDet a b := mul_self_pos.mpr hD
  rw [segContains_eq, segX_comb a b X al be hX, segY_comb a b X al be hX, Bool.eq_iff_iff]
  simp only [hl, decide_true, Bool.true_and, Bool.and_eq_true, Bool.or_eq_true, Bool.not_eq_true', decide_eq_false_iff_not,
    decide_eq_true_eq]
  constructor
  · rintro ⟨⟨h0, h1⟩, h2⟩
    refine ⟨?_, ?_, ?_⟩
    · intro hs
      rcases h0 with h0 | h0 <;> apply h0 <;> simp [hs]
    · exact nonneg_of_mul_nonneg_left h1 hD2
    · exact le_of_mul_le_mul_right h2 hD2
  · rintro ⟨hs, h1, h2⟩
    refine ⟨⟨Or.inr ?_, mul_nonneg h1 hD2.le⟩, mul_le_mul_of_nonneg_right h2 hD2.le⟩
    exact mul_ne_zero (mul_ne_zero hs hs) hD2.ne'

/-- finite point with last coordinate 1 -/
def hom (x y : F) : Nat → F := v3 x y 1

@[simp] theorem v3_0 (x y z : F) : v3 x y z 0 = x := rfl
@[simp] theorem v3_1 (x y z : F) : v3 x y z 1 = y := rfl
@[simp] theorem v3_2 (x y z : F) : v3 x y z 2 = z := rfl
@[simp] theorem rayDir_0 : (rayDir : Nat → F) 0 = 1 := by simp [rayDir, Gen.poly_ray_dir]
@[simp] theorem rayDir_1 : (rayDir : Nat → F) 1 = 0 := by simp [rayDir, Gen.poly_ray_dir]
@[simp] theorem rayDir_2 : (rayDir : Nat → F) 2 = 0 := by simp [rayDir, Gen.poly_ray_dir]

theorem v3_cases (x y z : F) (k : Nat) : v3 x y z k = if k = 0 then x else if k = 1 then y else z := by
  match k with
  | 0 => rfl
  | 1 => rfl
  | (k+2) => simp [v3]

theorem gramDet_hom (ax ay bx by' : F) :
    gramDet (hom ax ay) (hom bx by') = (ax * by' - ay * bx) ^ 2 + (ax - bx) ^ 2 + (ay - by') ^ 2 := by
  simp [gramDet, hom, dot3]; ring

theorem gramDet_hom_pos (ax ay bx by' : F) (h : ¬ (ax = bx ∧ ay = by')) : 0 < gramDet (hom ax ay) (hom bx by') := by
  rw [gramDet_hom]
  by_cases hx : ax = bx
  · have hy : ay - by' ≠ 0 := fun h' => h ⟨hx, sub_eq_zero.mp h'⟩
    have := pow_pos (abs_pos.mpr hy) 2; rw [sq_abs] at this
    positivity
  · have hx' : ax - bx ≠ 0 := sub_ne_zero.mpr hx
    have := pow_pos (abs_pos.mpr hx') 2; rw [sq_abs] at this
    positivity

theorem gramDet_ray_pos (px py : F) : 0 < gramDet (hom px py) (rayDir : Nat → F) := by
  have : gramDet (hom px py) (rayDir : Nat → F) = py ^ 2 + 1 := by
    simp [gramDet, hom, dot3]; ring
  rw [this]; positivity

/-- orientation determinant (twice the signed area of a, b, p) -/
def orient2 (ax ay bx by' px py : F) : F := (bx - ax) * (py - ay) - (by' - ay) * (px - ax)

section edge
variable (ax ay bx by' px py : F)

/-- the intersection of the edge line with the ray line is `(py − by)·a + (ay − py)·b` -/
theorem X_comb_edge (k : Nat) (hk : k < 3) :
    cross (cross (hom ax ay) (hom bx by')) (cross (hom px py) (rayDir : Nat → F)) k
      = (py - by') * hom ax ay k + (ay - py) * hom bx by' k := by
  match k with
  | 0 => simp [cross, hom]; ring
  | 1 => simp [cross, hom]; ring
  | 2 => simp [cross, hom]
  | (k+3) => omega

/-- … and `(ay − by)·p + (−orient)·direction` -/
theorem X_comb_ray (k : Nat) (hk : k < 3) :
    cross (cross (hom ax ay) (hom bx by')) (cross (hom px py) (rayDir : Nat → F)) k
      = (ay - by') * hom px py k + (-(orient2 ax ay bx by' px py)) * (rayDir : Nat → F) k := by
  match k with
  | 0 => simp [cross, hom, orient2]; ring
  | 1 => simp [cross, hom, orient2]
  | 2 => simp [cross, hom, orient2]
  | (k+3) => omega

theorem dot_cross_left (u v w : Nat → F) : dot3 (cross u v) (cross (cross u v) w) = 0 := by
  simp [dot3, cross]; ring
theorem dot_cross_right (u v w : Nat → F) : dot3 w (cross u w) = 0 := by
  simp [dot3, cross]; ring
theorem dot_cross_right' (u w : Nat → F) : dot3 w (cross u w) = 0 := by
  simp [dot3, cross]; ring
end edge

/-- `is_multiple` of two 3-vectors whose last entries are `s ≠ 0` and `1` -/
theorem isMultiple3_last (x0 x1 s a0 a1 : F) (hs : s ≠ 0) :
    isMultiple [x0, x1, s] [a0, a1, 1] = decide (x0 = s * a0 ∧ x1 = s * a1) := by
  rw [Bool.eq_iff_iff]
  simp only [isMultiple, List.zip_cons_cons, List.zip_nil_right, List.all_cons, List.all_nil, Bool.and_true, Bool.or_eq_true,
    Bool.and_eq_true, decide_eq_true_eq, beq_iff_eq, hs, one_ne_zero, and_false, false_or, decide_false]
  constructor
  · rintro ((⟨_, _, h⟩ | ⟨_, _, h⟩) | ⟨_, h⟩)
    · exact absurd h (by simp)
    · exact absurd h (by simp)
    · constructor
      · have := h.1.2.2; linear_combination this
      · have := h.2.1.2.2; linear_combination this
  · rintro ⟨h0, h1⟩
    subst h0 h1
    right
    refine ⟨?_, ?_⟩
    · simp [hs]
    · refine ⟨⟨?_, ?_, ?_⟩, ⟨?_, ?_, ?_⟩, ?_, ?_, ?_⟩ <;> ring


/-! ## one edge of the polygon against the ray -/
section edgerule
variable (ax ay bx by' px py : F)

/-- the code's "edge contains the intersection" ⇔ the height of `p` lies between the heights of the end points
    (a horizontal edge never contains the intersection, which is then the point at infinity or zero) -/
theorem edge_contains_X (hab : ¬ (ax = bx ∧ ay = by')) :
    segContains (hom ax ay) (hom bx by') (cross (hom ax ay) (hom bx by'))
        (cross (cross (hom ax ay) (hom bx by')) (cross (hom px py) rayDir))
      = decide (ay - by' ≠ 0 ∧ 0 ≤ (ay - py) * (ay - by') ∧ (ay - py) * (ay - by') ≤ (ay - by') * (ay - by')) := by
  have h := segContains_comb (hom ax ay) (hom bx by') (cross (hom ax ay) (hom bx by')) (py - by') (ay - py)
    (gramDet_hom_pos ax ay bx by' hab).ne' _ (X_comb_edge ax ay bx by' px py) (dot_cross_left _ _ _)
  have e : py - by' + (ay - py) = ay - by' := by ring
  rw [h, e]

/-- the code's "ray contains the intersection" ⇔ the crossing lies on the side of the ray direction, or the intersection
    is the direction point itself -/
theorem ray_contains_X :
    segContains (hom px py) rayDir (cross (hom px py) rayDir)
        (cross (cross (hom ax ay) (hom bx by')) (cross (hom px py) rayDir))
      = decide ((ay - by') + -(orient2 ax ay bx by' px py) ≠ 0
          ∧ 0 ≤ -(orient2 ax ay bx by' px py) * ((ay - by') + -(orient2 ax ay bx by' px py))
          ∧ -(orient2 ax ay bx by' px py) * ((ay - by') + -(orient2 ax ay bx by' px py))
              ≤ ((ay - by') + -(orient2 ax ay bx by' px py)) * ((ay - by') + -(orient2 ax ay bx by' px py))) := by
  exact segContains_comb (hom px py) rayDir (cross (hom px py) rayDir) (ay - by') (-(orient2 ax ay bx by' px py))
    (gramDet_ray_pos px py).ne' _ (X_comb_ray ax ay bx by' px py) (dot_cross_right' _ _)

/-- pure order lemma: for `s ≠ 0`, `B/(s+B) ∈ [0,1]` (with `s + B ≠ 0`) iff `s·B ≥ 0` -/
theorem ray_interval (s B : F) (hs : s ≠ 0) :
    (s + B ≠ 0 ∧ 0 ≤ B * (s + B) ∧ B * (s + B) ≤ (s + B) * (s + B)) ↔ 0 ≤ s * B := by
  constructor
  · rintro ⟨h0, h1, h2⟩
    by_contra hneg
    push_neg at hneg
    have h3 : 0 ≤ s * (s + B) := by nlinarith
    -- s·B < 0, B(s+B) ≥ 0, s(s+B) ≥ 0  ⇒  (s+B)² · (s·B) ≥ 0 with (s+B)² > 0: contradiction
    have hp : 0 < (s + B) * (s + B) := mul_self_pos.mpr h0
    have : 0 ≤ (s * (s + B)) * (B * (s + B)) := mul_nonneg h3 h1
    have e : (s * (s + B)) * (B * (s + B)) = (s * B) * ((s + B) * (s + B)) := by ring
    rw [e] at this
    have : 0 ≤ s * B := nonneg_of_mul_nonneg_left this hp
    linarith
  · intro h
    have hs2 : 0 < s * s := mul_self_pos.mpr hs
    refine ⟨?_, ?_, ?_⟩
    · intro h0
      have : B = -s := by linarith
      rw [this] at h
      nlinarith
    · nlinarith [mul_self_nonneg B]
    · nlinarith

/-- the closed interval test of the edge: for `s = ay − by ≠ 0` -/
theorem edge_interval (s u : F) (hs : s ≠ 0) :
    (0 ≤ u * s ∧ u * s ≤ s * s) ↔ ((0 ≤ u ∧ u ≤ s) ∨ (s ≤ u ∧ u ≤ 0)) := by
  rcases lt_or_gt_of_ne hs with hneg | hpos
  · constructor
    · rintro ⟨h1, h2⟩
      right
      constructor
      · by_contra h; push_neg at h; nlinarith
      · by_contra h; push_neg at h; nlinarith
    · rintro (⟨h1, h2⟩ | ⟨h1, h2⟩)
      · have : u = 0 := by linarith
        subst this; simp; nlinarith
      · constructor <;> nlinarith
  · constructor
    · rintro ⟨h1, h2⟩
      left
      constructor
      · by_contra h; push_neg at h; nlinarith
      · by_contra h; push_neg at h; nlinarith
    · rintro (⟨h1, h2⟩ | ⟨h1, h2⟩)
      · constructor <;> nlinarith
      · have : u = 0 := by linarith
        subst this; simp; nlinarith


/-- an edge that is not horizontal is never "along the ray" -/
theorem rayEdge_false (hs : ay - by' ≠ 0) :
    isMultiple (toL3 (cross (hom ax ay) (hom bx by'))) (toL3 (cross (hom px py) (rayDir : Nat → F))) = false := by
  simp [isMultiple, toL3, cross, hom, hs]

theorem X_last : cross (cross (hom ax ay) (hom bx by')) (cross (hom px py) (rayDir : Nat → F)) 2 = ay - by' := by
  simp [cross, hom]

/-- the intersection is (a multiple of) the first / second end point iff `p` is level with it -/
theorem X_multiple_v1 (hs : ay - by' ≠ 0) :
    isMultiple (toL3 (cross (cross (hom ax ay) (hom bx by')) (cross (hom px py) (rayDir : Nat → F)))) (toL3 (hom ax ay))
      = decide (py = ay) := by
  have h := isMultiple3_last
    (cross (cross (hom ax ay) (hom bx by')) (cross (hom px py) (rayDir : Nat → F)) 0)
    (cross (cross (hom ax ay) (hom bx by')) (cross (hom px py) (rayDir : Nat → F)) 1) (ay - by') ax ay hs
  have e : toL3 (cross (cross (hom ax ay) (hom bx by')) (cross (hom px py) (rayDir : Nat → F)))
      = [cross (cross (hom ax ay) (hom bx by')) (cross (hom px py) (rayDir : Nat → F)) 0,
         cross (cross (hom ax ay) (hom bx by')) (cross (hom px py) (rayDir : Nat → F)) 1, ay - by'] := by
    simp [toL3, X_last]
  have e2 : toL3 (hom ax ay) = [ax, ay, 1] := by simp [toL3, hom]
  rw [e, e2, h, Bool.eq_iff_iff]
  simp only [decide_eq_true_eq]
  rw [X_comb_edge ax ay bx by' px py 0 (by omega), X_comb_edge ax ay bx by' px py 1 (by omega)]
  simp only [hom, v3_0, v3_1]
  constructor
  · rintro ⟨_, h1⟩
    have : (ay - by') * (py - ay) = 0 := by linear_combination h1
    rcases mul_eq_zero.mp this with h | h
    · exact absurd h hs
    · exact sub_eq_zero.mp h
  · intro h; subst h; constructor <;> ring

theorem X_multiple_v2 (hs : ay - by' ≠ 0) :
    isMultiple (toL3 (cross (cross (hom ax ay) (hom bx by')) (cross (hom px py) (rayDir : Nat → F)))) (toL3 (hom bx by'))
      = decide (py = by') := by
  have h := isMultiple3_last
    (cross (cross (hom ax ay) (hom bx by')) (cross (hom px py) (rayDir : Nat → F)) 0)
    (cross (cross (hom ax ay) (hom bx by')) (cross (hom px py) (rayDir : Nat → F)) 1) (ay - by') bx by' hs
  have e : toL3 (cross (cross (hom ax ay) (hom bx by')) (cross (hom px py) (rayDir : Nat → F)))
      = [cross (cross (hom ax ay) (hom bx by')) (cross (hom px py) (rayDir : Nat → F)) 0,
         cross (cross (hom ax ay) (hom bx by')) (cross (hom px py) (rayDir : Nat → F)) 1, ay - by'] := by
    simp [toL3, X_last]
  have e2 : toL3 (hom bx by') = [bx, by', 1] := by simp [toL3, hom]
  rw [e, e2, h, Bool.eq_iff_iff]
  simp only [decide_eq_true_eq]
  rw [X_comb_edge ax ay bx by' px py 0 (by omega), X_comb_edge ax ay bx by' px py 1 (by omega)]
  simp only [hom, v3_0, v3_1]
  constructor
  · rintro ⟨_, h1⟩
    have : (ay - by') * (py - by') = 0 := by linear_combination h1
    rcases mul_eq_zero.mp this with h | h
    · exact absurd h hs
    · exact sub_eq_zero.mp h
  · intro h; subst h; constructor <;> ring

/-- **T16.3 (per edge)** the model's verdict "this edge counts as a crossing" is the half-open crossing rule: the height of
    `p` lies in `(lower end, upper end]` and the crossing is on the ray's side (`(by − ay)·orient ≥ 0`; strict when `p`
    is not on the edge) -/
theorem T16_3_edge_rule (hab : ¬ (ax = bx ∧ ay = by')) :
    polyEdgeCounts (hom ax ay) (hom bx by') (hom px py)
      = decide (((ay < py ∧ py ≤ by') ∨ (by' < py ∧ py ≤ ay)) ∧ 0 ≤ (by' - ay) * orient2 ax ay bx by' px py) := by
  unfold polyEdgeCounts
  simp only [Gen.poly_edge, Gen.poly_v1, Gen.poly_v2]
  rw [edge_contains_X ax ay bx by' px py hab, ray_contains_X]
  by_cases hs : ay - by' = 0
  · have hy : ay = by' := sub_eq_zero.mp hs
    rw [Bool.eq_iff_iff]
    simp [hy]
  · rw [rayEdge_false ax ay bx by' px py hs, X_multiple_v1 ax ay bx by' px py hs, X_multiple_v2 ax ay bx by' px py hs,
      Bool.eq_iff_iff]
    have hr := ray_interval (ay - by') (-(orient2 ax ay bx by' px py)) hs
    have he := edge_interval (ay - by') (ay - py) hs
    simp only [Bool.and_eq_true, Bool.not_eq_true', decide_eq_true_eq, decide_eq_false_iff_not, Bool.not_false,
      Bool.true_and, Bool.and_true, hom, v3_1, if_true, one_ne_zero, if_false, not_and, ne_eq, Bool.and_eq_false_imp]
    rw [hr]
    have e : (ay - by') * -(orient2 ax ay bx by' px py) = (by' - ay) * orient2 ax ay bx by' px py := by ring
    rw [e]
    constructor
    · rintro ⟨⟨⟨_, h1, h2⟩, hray⟩, hv1, hv2⟩
      refine ⟨?_, hray⟩
      rcases he.mp ⟨h1, h2⟩ with ⟨h3, h4⟩ | ⟨h3, h4⟩
      · -- 0 ≤ ay − py ≤ ay − by' : by' ≤ py ≤ ay
        right
        refine ⟨?_, by linarith⟩
        rcases lt_or_eq_of_le (show by' ≤ py by linarith) with h | h
        · exact h
        · exact absurd h.symm (hv2 (by linarith))
      · left
        refine ⟨?_, by linarith⟩
        rcases lt_or_eq_of_le (show ay ≤ py by linarith) with h | h
        · exact h
        · exact absurd h.symm (hv1 (by linarith))
    · rintro ⟨hh, hray⟩
      refine ⟨⟨⟨hs, ?_⟩, hray⟩, ?_, ?_⟩
      · apply he.mpr
        rcases hh with ⟨h1, h2⟩ | ⟨h1, h2⟩
        · right; constructor <;> linarith
        · left; constructor <;> linarith
      · intro hle heq
        rcases hh with ⟨h1, h2⟩ | ⟨h1, h2⟩ <;> linarith
      · intro hle heq
        rcases hh with ⟨h1, h2⟩ | ⟨h1, h2⟩ <;> linarith

end edgerule

/-! ## the two half-open conventions -/
/-- per edge: the code's half-open rule `(lower, upper]` and the specification's `[lower, upper)` differ exactly by the
    indicator "an end point lies on the open ray", once for each end -/
theorem edge_parity_prop (ax ay bx by' px py o : F) (ho : o = (bx - ax) * (py - ay) - (by' - ay) * (px - ax))
    (hns : ¬ (o = 0 ∧ 0 ≤ (px - ax) * (bx - ax) + (py - ay) * (by' - ay)
      ∧ (px - ax) * (bx - ax) + (py - ay) * (by' - ay) ≤ (bx - ax) * (bx - ax) + (by' - ay) * (by' - ay))) :
    ((((ay < py ∧ py ≤ by') ∨ (by' < py ∧ py ≤ ay)) ∧ 0 ≤ (by' - ay) * o)
        ↔ (¬ ((py < ay) ↔ (py < by')) ∧ (if ay < by' then 0 < o else o < 0)))
      ↔ ((ay = py ∧ px < ax) ↔ (by' = py ∧ px < bx)) := by
  -- dy·t = ey·dd − dx·o
  have key : (by' - ay) * ((px - ax) * (bx - ax) + (py - ay) * (by' - ay))
      = (py - ay) * ((bx - ax) * (bx - ax) + (by' - ay) * (by' - ay)) - (bx - ax) * o := by rw [ho]; ring
  have hdd : 0 ≤ (bx - ax) * (bx - ax) + (by' - ay) * (by' - ay) :=
    add_nonneg (mul_self_nonneg _) (mul_self_nonneg _)
  rcases lt_trichotomy ay py with h1 | h1 | h1 <;> rcases lt_trichotomy by' py with h2 | h2 | h2
  · -- both below
    clear ho key
    have : ¬ py < ay := not_lt.mpr h1.le
    have : ¬ py < by' := not_lt.mpr h2.le
    have : ¬ py ≤ ay := not_le.mpr h1
    have : ¬ py ≤ by' := not_le.mpr h2
    have : ay ≠ py := h1.ne
    have : by' ≠ py := h2.ne
    simp [*]
  · -- ay < py = by'
    subst h2
    have e : o = (by' - ay) * (bx - px) := by rw [ho]; ring
    have hpos : 0 < by' - ay := by linarith
    have hne : px ≠ bx := by
      intro h; apply hns
      subst h
      refine ⟨by rw [e]; ring, ?_, ?_⟩ <;> nlinarith [mul_self_nonneg (px - ax)]
    have m : 0 ≤ (by' - ay) * o ↔ px < bx := by
      rw [e]
      constructor
      · intro h
        have : 0 ≤ bx - px := by
          by_contra hc; push Not at hc
          nlinarith [mul_pos hpos hpos]
        rcases lt_or_eq_of_le (show px ≤ bx by linarith) with h | h
        · exact h
        · exact absurd h hne
      · intro h; have : 0 < bx - px := by linarith
        positivity
    clear ho key e
    have : ¬ by' < ay := not_lt.mpr h1.le
    have : ¬ by' < by' := lt_irrefl _
    have : ay ≠ by' := h1.ne
    simp [*, h1.le]
  · -- ay < py < by'
    have hpos : 0 < by' - ay := by linarith
    have hne : o ≠ 0 := by
      intro h; apply hns
      rw [h] at key
      refine ⟨h, ?_, ?_⟩
      · by_contra hc; push Not at hc
        nlinarith
      · by_contra hc; push Not at hc
        nlinarith
    have m : 0 ≤ (by' - ay) * o ↔ 0 < o := by
      constructor
      · intro h
        have : 0 ≤ o := nonneg_of_mul_nonneg_right h hpos
        exact lt_of_le_of_ne this (Ne.symm hne)
      · intro h; positivity
    clear ho key
    have : ¬ py < ay := not_lt.mpr h1.le
    have : ay < by' := by linarith
    have : ay ≠ py := h1.ne
    have : by' ≠ py := h2.ne'
    simp [*, h1.le, h2.le]
  · -- ay = py > by'
    subst h1
    have e : o = -((by' - ay) * (px - ax)) := by rw [ho]; ring
    have hneg : by' - ay < 0 := by linarith
    have hne : px ≠ ax := by
      intro h; apply hns
      subst h
      refine ⟨by rw [e]; ring, ?_, ?_⟩ <;> nlinarith [mul_self_nonneg (bx - px), mul_self_nonneg (by' - ay)]
    have m : 0 ≤ (by' - ay) * o ↔ px < ax := by
      rw [e]
      constructor
      · intro h
        have : 0 ≤ ax - px := by
          by_contra hc; push Not at hc
          nlinarith [mul_pos_of_neg_of_neg hneg hneg]
        rcases lt_or_eq_of_le (show px ≤ ax by linarith) with h | h
        · exact h
        · exact absurd h hne
      · intro h
        have : 0 < ax - px := by linarith
        nlinarith [mul_pos_of_neg_of_neg hneg hneg]
    clear ho key e
    have : ¬ ay < by' := not_lt.mpr h2.le
    have : ¬ ay < ay := lt_irrefl _
    have : by' ≠ ay := h2.ne
    simp [*, h2.le]
  · -- ay = py = by'
    subst h1
    have h2' : by' = ay := h2
    subst h2'
    have e : o = 0 := by rw [ho]; ring
    have hh : (px < ax) ↔ (px < bx) := by
      have hn : ¬ (0 ≤ (px - ax) * (bx - ax) ∧ (px - ax) * (bx - ax) ≤ (bx - ax) * (bx - ax)) := by
        intro h; apply hns
        refine ⟨e, ?_, ?_⟩ <;> simp <;> [exact h.1; exact h.2]
      constructor
      · intro h
        by_contra hc; push Not at hc
        apply hn; constructor <;> nlinarith
      · intro h
        by_contra hc; push Not at hc
        apply hn; constructor <;> nlinarith
    clear ho key
    simp [e, hh]
  · -- ay = py < by'
    subst h1
    have e : o = -((by' - ay) * (px - ax)) := by rw [ho]; ring
    have hpos : 0 < by' - ay := by linarith
    have m : 0 < o ↔ px < ax := by
      rw [e]
      constructor
      · intro h
        by_contra hc; push Not at hc
        have : 0 ≤ (by' - ay) * (px - ax) := mul_nonneg hpos.le (by linarith)
        linarith
      · intro h
        have : (by' - ay) * (px - ax) < 0 := mul_neg_of_pos_of_neg hpos (by linarith)
        linarith
    clear ho key e
    have : ¬ by' < ay := not_lt.mpr h2.le
    have : ¬ ay < ay := lt_irrefl _
    have : by' ≠ ay := h2.ne'
    simp [*]
  · -- ay > py > by'
    have hneg : by' - ay < 0 := by linarith
    have hne : o ≠ 0 := by
      intro h; apply hns
      rw [h] at key
      refine ⟨h, ?_, ?_⟩
      · by_contra hc; push Not at hc
        nlinarith
      · by_contra hc; push Not at hc
        nlinarith
    have m : 0 ≤ (by' - ay) * o ↔ o < 0 := by
      constructor
      · intro h
        have : o ≤ 0 := by
          by_contra hc; push Not at hc
          have := mul_neg_of_neg_of_pos hneg hc
          linarith
        exact lt_of_le_of_ne this hne
      · intro h; exact (mul_pos_of_neg_of_neg hneg h).le
    clear ho key
    have : ¬ py < by' := not_lt.mpr h2.le
    have : ¬ ay < by' := by push Not; linarith
    have : ay ≠ py := h1.ne'
    have : by' ≠ py := h2.ne
    simp [*, h1.le, h2.le]
  · -- ay > py = by'
    subst h2
    have e : o = (by' - ay) * (bx - px) := by rw [ho]; ring
    have hneg : by' - ay < 0 := by linarith
    have m : o < 0 ↔ px < bx := by
      rw [e]
      constructor
      · intro h
        by_contra hc; push Not at hc
        have : 0 ≤ (by' - ay) * (bx - px) := mul_nonneg_of_nonpos_of_nonpos hneg.le (by linarith)
        linarith
      · intro h
        exact mul_neg_of_neg_of_pos hneg (by linarith)
    clear ho key e
    have : ¬ ay < by' := not_lt.mpr h1.le
    have : ¬ by' < by' := lt_irrefl _
    have : ay ≠ by' := h1.ne'
    simp [*]
  · -- both above
    clear ho key
    have : ¬ ay < py := not_lt.mpr h1.le
    have : ¬ by' < py := not_lt.mpr h2.le
    have : ay ≠ py := h1.ne'
    have : by' ≠ py := h2.ne'
    simp [*]

/-! ## the closed segment -/
section segment
variable (ax ay bx by' px py : F)

theorem dot_line_point :
    dot3 (cross (hom ax ay) (hom bx by')) (hom px py) = orient2 ax ay bx by' px py := by
  simp [dot3, cross, hom, orient2]; ring

/-- **T16.1** `SegmentTensor.contains` (model over the regenerated arithmetic) on a finite point: collinear and the
    parameter `t = (p − a)·(b − a)` lies in `[0, |b − a|²]` -/
theorem T16_1_segment_iff (hab : ¬ (ax = bx ∧ ay = by')) :
    segContains (hom ax ay) (hom bx by') (cross (hom ax ay) (hom bx by')) (hom px py) = true
      ↔ (orient2 ax ay bx by' px py = 0 ∧ 0 ≤ (px - ax) * (bx - ax) + (py - ay) * (by' - ay)
          ∧ (px - ax) * (bx - ax) + (py - ay) * (by' - ay) ≤ (bx - ax) * (bx - ax) + (by' - ay) * (by' - ay)) := by
  have hdd : 0 < (bx - ax) * (bx - ax) + (by' - ay) * (by' - ay) := by
    by_cases hx : ax = bx
    · have hy : by' - ay ≠ 0 := fun h' => hab ⟨hx, (sub_eq_zero.mp h').symm⟩
      have := mul_self_pos.mpr hy
      nlinarith [mul_self_nonneg (bx - ax)]
    · have hx' : bx - ax ≠ 0 := fun h' => hx (sub_eq_zero.mp h').symm
      have := mul_self_pos.mpr hx'
      nlinarith [mul_self_nonneg (by' - ay)]
  by_cases ho : orient2 ax ay bx by' px py = 0
  · -- collinear: p = (1 − τ) a + τ b with τ = t / |d|²
    set dd := (bx - ax) * (bx - ax) + (by' - ay) * (by' - ay) with hdd_def
    set t := (px - ax) * (bx - ax) + (py - ay) * (by' - ay) with ht_def
    have ho' : (bx - ax) * (py - ay) - (by' - ay) * (px - ax) = 0 := ho
    have h1 : dd * (px - ax) = t * (bx - ax) := by
      rw [hdd_def, ht_def]; linear_combination (-(by' - ay)) * ho'
    have h2 : dd * (py - ay) = t * (by' - ay) := by
      rw [hdd_def, ht_def]; linear_combination (bx - ax) * ho'
    have hX : ∀ k, k < 3 → hom px py k = (1 - t / dd) * hom ax ay k + (t / dd) * hom bx by' k := by
      intro k hk
      match k with
      | 0 => simp only [hom, v3_0]; field_simp; linear_combination h1
      | 1 => simp only [hom, v3_1]; field_simp; linear_combination h2
      | 2 => simp only [hom, v3_2]; ring
      | (k+3) => omega
    have hl : dot3 (cross (hom ax ay) (hom bx by')) (hom px py) = 0 := by rw [dot_line_point]; exact ho
    rw [segContains_comb (hom ax ay) (hom bx by') _ (1 - t / dd) (t / dd) (gramDet_hom_pos ax ay bx by' hab).ne' _ hX hl]
    have e : 1 - t / dd + t / dd = 1 := by ring
    simp only [e, decide_eq_true_eq, mul_one, ne_eq, one_ne_zero, not_false_eq_true, true_and, ho]
    rw [div_nonneg_iff, div_le_one hdd]
    constructor
    · rintro ⟨h | h, h'⟩
      · exact ⟨h.1, h'⟩
      · exact absurd h.2 (not_le.mpr hdd)
    · rintro ⟨h, h'⟩
      exact ⟨Or.inl ⟨h, hdd.le⟩, h'⟩
  · rw [segContains_eq, dot_line_point]
    simp [ho]

/-- the independent specification of the closed segment, on the same coordinates -/
theorem onSegment_iff (hab : ¬ (ax = bx ∧ ay = by')) :
    Spec.onSegment [ax, ay] [bx, by'] [px, py] = true
      ↔ (orient2 ax ay bx by' px py = 0 ∧ 0 ≤ (px - ax) * (bx - ax) + (py - ay) * (by' - ay)
          ∧ (px - ax) * (bx - ax) + (py - ay) * (by' - ay) ≤ (bx - ax) * (bx - ax) + (by' - ay) * (by' - ay)) := by
  simp only [Spec.onSegment, Spec.vsub, Spec.ldot, Spec.norm2, Spec.vscale, List.zipWith_cons_cons, List.zipWith_nil_right,
    List.foldl_cons, List.foldl_nil, List.map_cons, List.map_nil, zero_add, Bool.and_eq_true, decide_eq_true_eq,
    List.cons.injEq, and_true]
  have key1 : ((bx - ax) * (bx - ax) + (by' - ay) * (by' - ay)) * (px - ax)
      - ((px - ax) * (bx - ax) + (py - ay) * (by' - ay)) * (bx - ax) = -((by' - ay) * orient2 ax ay bx by' px py) := by
    simp only [orient2]; ring
  have key2 : ((bx - ax) * (bx - ax) + (by' - ay) * (by' - ay)) * (py - ay)
      - ((px - ax) * (bx - ax) + (py - ay) * (by' - ay)) * (by' - ay) = (bx - ax) * orient2 ax ay bx by' px py := by
    simp only [orient2]; ring
  constructor
  · rintro ⟨⟨⟨e1, e2⟩, h1⟩, h2⟩
    refine ⟨?_, h1, h2⟩
    have z1 : (by' - ay) * orient2 ax ay bx by' px py = 0 := by
      have := key1; rw [e1, sub_self] at this; exact neg_eq_zero.mp this.symm
    have z2 : (bx - ax) * orient2 ax ay bx by' px py = 0 := by
      have := key2; rw [e2, sub_self] at this; exact this.symm
    by_contra ho
    rcases mul_eq_zero.mp z1 with hy | h
    · rcases mul_eq_zero.mp z2 with hx | h
      · exact hab ⟨(sub_eq_zero.mp hx).symm, (sub_eq_zero.mp hy).symm⟩
      · exact ho h
    · exact ho h
  · rintro ⟨ho, h1, h2⟩
    rw [ho, mul_zero] at key1 key2
    rw [neg_zero] at key1
    exact ⟨⟨⟨sub_eq_zero.mp key1, sub_eq_zero.mp key2⟩, h1⟩, h2⟩
end segment

/-! ## parity over the vertex cycle -/
section cycle

/-- parity of the number of `true`s -/
def parity (l : List Bool) : Bool := l.foldr xor false

theorem length_filter_mod2 {β : Type} (l : List β) (f : β → Bool) :
    ((l.filter f).length % 2 == 1) = parity (l.map f) := by
  induction l with
  | nil => rfl
  | cons x xs ih =>
    simp only [List.filter_cons, List.map_cons, parity, List.foldr_cons] at ih ⊢
    rw [← ih]
    cases hf : f x
    · simp
    · simp only [if_true, List.length_cons, Bool.true_xor]
      rcases Nat.mod_two_eq_zero_or_one (xs.filter f).length with h | h
      · have : ((xs.filter f).length + 1) % 2 = 1 := by omega
        simp [h, this]
      · have : ((xs.filter f).length + 1) % 2 = 0 := by omega
        simp [h, this]

theorem parity_map_xor {β : Type} (l : List β) (f g : β → Bool) :
    parity (l.map fun e => xor (f e) (g e)) = xor (parity (l.map f)) (parity (l.map g)) := by
  induction l with
  | nil => rfl
  | cons x xs ih =>
    simp only [List.map_cons, parity, List.foldr_cons] at ih ⊢
    rw [ih]
    cases f x <;> cases g x <;> cases (List.foldr xor false (List.map f xs)) <;>
      cases (List.foldr xor false (List.map g xs)) <;> rfl

theorem parity_append (l m : List Bool) : parity (l ++ m) = xor (parity l) (parity m) := by
  induction l with
  | nil => simp [parity]
  | cons x xs ih =>
    simp only [List.cons_append, parity, List.foldr_cons] at ih ⊢
    rw [ih]
    cases x <;> cases (List.foldr xor false xs) <;> cases (List.foldr xor false m) <;> rfl

/-- around a closed vertex cycle every vertex is the first end of one edge and the second end of one edge -/
theorem cycle_parity {β : Type} (vs : List β) (h : β → Bool) :
    parity ((cycleEdges vs).map fun e => xor (h e.1) (h e.2)) = false := by
  rw [parity_map_xor]
  cases vs with
  | nil => rfl
  | cons v rest =>
    have e1 : (cycleEdges (v :: rest)).map (fun e => h e.1) = (v :: rest).map h := by
      have : (cycleEdges (v :: rest)).map Prod.fst = v :: rest := by
        unfold cycleEdges; apply List.map_fst_zip; simp
      have e : (cycleEdges (v :: rest)).map (fun e => h e.1) = ((cycleEdges (v :: rest)).map Prod.fst).map h := by
        rw [List.map_map]; rfl
      rw [e, this]
    have e2 : (cycleEdges (v :: rest)).map (fun e => h e.2) = (rest ++ [v]).map h := by
      have : (cycleEdges (v :: rest)).map Prod.snd = rest ++ [v] := by
        unfold cycleEdges; apply List.map_snd_zip; simp
      have e : (cycleEdges (v :: rest)).map (fun e => h e.2) = ((cycleEdges (v :: rest)).map Prod.snd).map h := by
        rw [List.map_map]; rfl
      rw [e, this]
    rw [e1, e2, List.map_append, parity_append]
    simp only [List.map_cons, List.map_nil, parity, List.foldr_cons, List.foldr_nil, Bool.xor_false]
    cases h v <;> cases (List.foldr xor false (List.map h rest)) <;> rfl

theorem polyEdges_eq_cycleEdges {β : Type} (vs : List β) : polyEdges vs = cycleEdges vs := by
  unfold polyEdges cycleEdges
  have : (-Gen.poly_edges_roll).toNat = 1 := by decide
  rw [this]
  cases vs with
  | nil => rfl
  | cons v rest =>
    cases rest with
    | nil => rfl
    | cons w rest' => simp [List.rotateLeft]

end cycle

/-! ## the polygon -/
section polygon
def homP (v : F × F) : Nat → F := hom v.1 v.2
def lst (v : F × F) : List F := [v.1, v.2]

theorem cycleEdges_map {β γ : Type} (f : β → γ) (vs : List β) :
    cycleEdges (vs.map f) = (cycleEdges vs).map fun e => (f e.1, f e.2) := by
  cases vs with
  | nil => rfl
  | cons v rest =>
    simp only [cycleEdges, List.map_cons]
    rw [← List.map_cons, show List.map f rest ++ [f v] = List.map f (rest ++ [v]) by simp, List.zip_map]
    simp [Prod.map]

/-- the specification's crossing rule on coordinates -/
def specCross (a b p : F × F) : Bool :=
  (decide (p.2 < a.2) != decide (p.2 < b.2)) &&
    (if decide (a.2 < b.2) then decide (0 < orient2 a.1 a.2 b.1 b.2 p.1 p.2) else decide (orient2 a.1 a.2 b.1 b.2 p.1 p.2 < 0))

theorem inPolygon_unfold (vs : List (F × F)) (p : F × F) :
    Spec.inPolygon (vs.map lst) (lst p)
      = (((cycleEdges vs).any fun e => Spec.onSegment (lst e.1) (lst e.2) (lst p))
          || (((cycleEdges vs).filter fun e => specCross e.1 e.2 p).length % 2 == 1)) := by
  unfold Spec.inPolygon
  rw [cycleEdges_map]
  simp only [List.any_map, List.filter_map, List.length_map]
  have e1 : ((fun e : List F × List F => onSegment e.1 e.2 (lst p)) ∘ fun e : (F × F) × F × F => (lst e.1, lst e.2))
      = fun e => onSegment (lst e.1) (lst e.2) (lst p) := rfl
  have e2 : ((fun e : List F × List F =>
                  (decide ((lst p).getD 1 0 < e.1.getD 1 0) != decide ((lst p).getD 1 0 < e.2.getD 1 0)) &&
                    if decide (e.1.getD 1 0 < e.2.getD 1 0) = true then decide (0 < orient e.1 e.2 (lst p))
                    else decide (orient e.1 e.2 (lst p) < 0)) ∘
                fun e : (F × F) × F × F => (lst e.1, lst e.2)) = fun e => specCross e.1 e.2 p := by
    funext e
    simp [specCross, lst, Spec.orient, orient2]
  rw [e1, e2]

theorem polyContains_unfold (vs : List (F × F)) (p : F × F) :
    polyContains (vs.map homP) (homP p)
      = ((((cycleEdges vs).filter fun e => polyEdgeCounts (homP e.1) (homP e.2) (homP p)).length % 2 == 1)
          || ((cycleEdges vs).any fun e => segContains (homP e.1) (homP e.2) (cross (homP e.1) (homP e.2)) (homP p))) := by
  unfold polyContains
  rw [polyEdges_eq_cycleEdges, cycleEdges_map]
  simp only [Gen.poly_final, List.any_map, List.filter_map, List.length_map]
  rfl

theorem decide_xor_of_iff (M S A B : Prop) [Decidable M] [Decidable S] [Decidable A] [Decidable B]
    (key : (M ↔ S) ↔ (A ↔ B)) : decide M = xor (decide S) (xor (decide A) (decide B)) := by
  by_cases hM : M <;> by_cases hS : S <;> by_cases hA : A <;> by_cases hB : B <;> simp_all

theorem specCross_eq (a b p : F × F) :
    specCross a b p = decide (¬ ((p.2 < a.2) ↔ (p.2 < b.2)) ∧
      (if a.2 < b.2 then 0 < orient2 a.1 a.2 b.1 b.2 p.1 p.2 else orient2 a.1 a.2 b.1 b.2 p.1 p.2 < 0)) := by
  unfold specCross
  by_cases h1 : p.2 < a.2 <;> by_cases h2 : p.2 < b.2 <;> by_cases h3 : a.2 < b.2 <;> simp [h1, h2, h3]

theorem bool_or_comm_eq (a b c d : Bool) (h1 : b = c) (h2 : c = false → a = d) : (a || b) = (c || d) := by
  subst h1; cases b <;> simp_all

/-- **T16.3** `PolygonTensor.contains` (model: regenerated rule + glue) equals the independent even–odd specification of the
    closed region, for every vertex cycle without repeated consecutive vertices and every finite query point -/
theorem T16_3_polygon_contains (vs : List (F × F)) (p : F × F) (hne : ∀ e ∈ cycleEdges vs, e.1 ≠ e.2) :
    polyContains (vs.map homP) (homP p) = Spec.inPolygon (vs.map lst) (lst p) := by
  rw [polyContains_unfold, inPolygon_unfold]
  -- boundary tests agree edge by edge
  have hb : ∀ e ∈ cycleEdges vs,
      segContains (homP e.1) (homP e.2) (cross (homP e.1) (homP e.2)) (homP p) = Spec.onSegment (lst e.1) (lst e.2) (lst p) := by
    intro e he
    have hab : ¬ (e.1.1 = e.2.1 ∧ e.1.2 = e.2.2) := fun h => hne e he (Prod.ext h.1 h.2)
    rw [Bool.eq_iff_iff]
    exact (T16_1_segment_iff e.1.1 e.1.2 e.2.1 e.2.2 p.1 p.2 hab).trans (onSegment_iff e.1.1 e.1.2 e.2.1 e.2.2 p.1 p.2 hab).symm
  have hany : ((cycleEdges vs).any fun e => segContains (homP e.1) (homP e.2) (cross (homP e.1) (homP e.2)) (homP p))
      = ((cycleEdges vs).any fun e => Spec.onSegment (lst e.1) (lst e.2) (lst p)) := by
    rw [Bool.eq_iff_iff, List.any_eq_true, List.any_eq_true]
    constructor <;> rintro ⟨e, he, h⟩ <;> exact ⟨e, he, by rw [hb e he] at *; exact h⟩
  apply bool_or_comm_eq _ _ _ _ hany
  intro hnb
  -- no edge contains p: compare the two half-open rules through the indicator of "vertex on the open ray"
  have hnb' : ∀ e ∈ cycleEdges vs, Spec.onSegment (lst e.1) (lst e.2) (lst p) = false := by
    intro e he
    by_contra h
    have : ((cycleEdges vs).any fun e => Spec.onSegment (lst e.1) (lst e.2) (lst p)) = true :=
      List.any_eq_true.mpr ⟨e, he, by simpa using h⟩
    rw [hnb] at this; exact absurd this (by simp)
  rw [length_filter_mod2, length_filter_mod2]
  let h : F × F → Bool := fun v => decide (v.2 = p.2 ∧ p.1 < v.1)
  have hx : ∀ e ∈ cycleEdges vs,
      polyEdgeCounts (homP e.1) (homP e.2) (homP p) = xor (specCross e.1 e.2 p) (xor (h e.1) (h e.2)) := by
    intro e he
    have hab : ¬ (e.1.1 = e.2.1 ∧ e.1.2 = e.2.2) := fun h => hne e he (Prod.ext h.1 h.2)
    have hns := hnb' e he
    have hns : ¬ (Spec.onSegment [e.1.1, e.1.2] [e.2.1, e.2.2] [p.1, p.2] = true) := by
      rw [show Spec.onSegment [e.1.1, e.1.2] [e.2.1, e.2.2] [p.1, p.2] = Spec.onSegment (lst e.1) (lst e.2) (lst p) from rfl, hns]
      simp
    rw [onSegment_iff e.1.1 e.1.2 e.2.1 e.2.2 p.1 p.2 hab] at hns
    have key := edge_parity_prop e.1.1 e.1.2 e.2.1 e.2.2 p.1 p.2 (orient2 e.1.1 e.1.2 e.2.1 e.2.2 p.1 p.2) rfl hns
    show polyEdgeCounts (hom e.1.1 e.1.2) (hom e.2.1 e.2.2) (hom p.1 p.2) = _
    rw [T16_3_edge_rule e.1.1 e.1.2 e.2.1 e.2.2 p.1 p.2 hab, specCross_eq]
    exact decide_xor_of_iff _ _ _ _ key
  have e1 : (cycleEdges vs).map (fun e => polyEdgeCounts (homP e.1) (homP e.2) (homP p))
      = (cycleEdges vs).map (fun e => xor (specCross e.1 e.2 p) (xor (h e.1) (h e.2))) :=
    List.map_congr_left hx
  rw [e1, parity_map_xor, cycle_parity, Bool.xor_false]

/-- `Triangle.contains` (regenerated determinants and sign test, exact tolerance 0) is the specification's closed triangle -/
theorem T16_2_triangle_contains (a b c p : F × F) :
    triContains (homP a) (homP b) (homP c) (homP p) = Spec.inTriangle (lst a) (lst b) (lst c) (lst p) := by
  have e1 : Gen.tri_lambda1 (homP a) (homP b) (homP c) (homP p) = Spec.orient (lst b) (lst c) (lst p) := by
    simp [Gen.tri_lambda1, det3, homP, hom, Spec.orient, lst]; ring
  have e2 : Gen.tri_lambda2 (homP a) (homP b) (homP c) (homP p) = Spec.orient (lst c) (lst a) (lst p) := by
    simp [Gen.tri_lambda2, det3, homP, hom, Spec.orient, lst]; ring
  have e3 : Gen.tri_lambda3 (homP a) (homP b) (homP c) (homP p) = Spec.orient (lst a) (lst b) (lst p) := by
    simp [Gen.tri_lambda3, det3, homP, hom, Spec.orient, lst]; ring
  unfold triContains Spec.inTriangle
  rw [e1, e2, e3]
  simp only [Gen.tri_verdict, neg_zero, ge_iff_le]
  rw [Bool.eq_iff_iff]
  simp only [Bool.or_eq_true, Bool.and_eq_true, decide_eq_true_eq]
  tauto

/-- non-vacuity: an L-shaped (non-convex) hexagon, an interior point, a point in the notch, a vertex, a point level
    with a vertex inside and one outside — evaluated by the model itself (at `Int`; the hypothesis of T16.3 holds) -/
example : let vs : List (Int × Int) := [(0,0), (4,0), (4,2), (2,2), (2,4), (0,4)]
    let hv : Int × Int → Nat → Int := fun v => v3 v.1 v.2 1
    (polyContains (vs.map hv) (hv (1,3)), polyContains (vs.map hv) (hv (3,3)),
     polyContains (vs.map hv) (hv (2,2)), polyContains (vs.map hv) (hv (1,2)),
     polyContains (vs.map hv) (hv (-1,2)), decide (∀ e ∈ cycleEdges vs, e.1 ≠ e.2)) = (true, false, true, true, false, true) := by
  decide +kernel
end polygon
section invariance
/-! ## T16.4 the verdict does not depend on where the cycle starts or on its direction -/

theorem zip_snoc {β γ : Type} (l1 : List β) (l2 : List γ) (x : β) (y : γ) (h : l1.length = l2.length) :
    (l1 ++ [x]).zip (l2 ++ [y]) = l1.zip l2 ++ [(x, y)] := by
  rw [List.zip_append h]; rfl

/-- starting the cycle one vertex later rotates the edge list -/
theorem cycleEdges_rotate {β : Type} (v : β) (rest : List β) :
    cycleEdges (rest ++ [v]) = (cycleEdges (v :: rest)).tail ++ [(cycleEdges (v :: rest)).headD (v, v)] := by
  cases rest with
  | nil => rfl
  | cons w rest' =>
    simp only [cycleEdges, List.cons_append, List.zip_cons_cons, List.tail_cons, List.headD_cons]
    rw [show w :: (rest' ++ [v]) = (w :: rest') ++ [v] from rfl, zip_snoc _ _ _ _ (by simp)]

theorem cycleEdges_rotate_perm {β : Type} (v : β) (rest : List β) :
    (cycleEdges (rest ++ [v])).Perm (cycleEdges (v :: rest)) := by
  rw [cycleEdges_rotate]
  cases h : cycleEdges (v :: rest) with
  | nil => simp [cycleEdges] at h
  | cons e es =>
    simp only [List.tail_cons, List.headD_cons]
    exact List.perm_append_singleton e es

/-- the verdict of the specification only depends on the multiset of edges -/
theorem inPolygon_of_perm (vs ws : List (F × F)) (p : F × F) (h : (cycleEdges vs).Perm (cycleEdges ws)) :
    Spec.inPolygon (vs.map lst) (lst p) = Spec.inPolygon (ws.map lst) (lst p) := by
  rw [inPolygon_unfold, inPolygon_unfold, h.any_eq, (h.filter _).length_eq]

/-- **T16.4 (start of the cycle)** -/
theorem T16_4_rotate (v : F × F) (rest : List (F × F)) (p : F × F) :
    Spec.inPolygon ((rest ++ [v]).map lst) (lst p) = Spec.inPolygon ((v :: rest).map lst) (lst p) :=
  inPolygon_of_perm _ _ p (cycleEdges_rotate_perm v rest)


theorem reverse_zip' {β γ : Type} (l1 : List β) (l2 : List γ) (h : l1.length = l2.length) :
    (l1.zip l2).reverse = l1.reverse.zip l2.reverse := by
  rw [List.zip_eq_zipWith, List.zip_eq_zipWith, List.reverse_zipWith h]

/-- reversing the cycle reverses every edge (as a multiset of edges) -/
theorem cycleEdges_reverse_perm {β : Type} (vs : List β) :
    (cycleEdges vs.reverse).Perm ((cycleEdges vs).map Prod.swap) := by
  cases vs with
  | nil => exact List.Perm.refl _
  | cons v rest =>
    rw [List.reverse_cons]
    refine (cycleEdges_rotate_perm v rest.reverse).trans ?_
    -- zip (v :: R) (R ++ [v])  with R = rest.reverse  is the reverse of  zip (rest ++ [v]) (v :: rest)
    have e : cycleEdges (v :: rest.reverse) = ((cycleEdges (v :: rest)).map Prod.swap).reverse := by
      show (v :: rest.reverse).zip (rest.reverse ++ [v]) = (((v :: rest).zip (rest ++ [v])).map Prod.swap).reverse
      rw [List.zip_swap, reverse_zip' _ _ (by simp)]
      simp
    rw [e]
    exact List.reverse_perm _

/-- the two per-edge tests of the specification do not see the direction of an edge -/
theorem onSegment_swap (a b p : F × F) : Spec.onSegment (lst b) (lst a) (lst p) = Spec.onSegment (lst a) (lst b) (lst p) := by
  by_cases hab : a.1 = b.1 ∧ a.2 = b.2
  · have : a = b := Prod.ext hab.1 hab.2
    rw [this]
  · have hba : ¬ (b.1 = a.1 ∧ b.2 = a.2) := fun h => hab ⟨h.1.symm, h.2.symm⟩
    rw [Bool.eq_iff_iff]
    show Spec.onSegment [b.1, b.2] [a.1, a.2] [p.1, p.2] = true ↔ Spec.onSegment [a.1, a.2] [b.1, b.2] [p.1, p.2] = true
    rw [onSegment_iff _ _ _ _ _ _ hba, onSegment_iff _ _ _ _ _ _ hab]
    have eo : orient2 b.1 b.2 a.1 a.2 p.1 p.2 = -orient2 a.1 a.2 b.1 b.2 p.1 p.2 := by simp only [orient2]; ring
    have et : (p.1 - b.1) * (a.1 - b.1) + (p.2 - b.2) * (a.2 - b.2)
        = ((b.1 - a.1) * (b.1 - a.1) + (b.2 - a.2) * (b.2 - a.2)) - ((p.1 - a.1) * (b.1 - a.1) + (p.2 - a.2) * (b.2 - a.2)) := by ring
    have ed : (a.1 - b.1) * (a.1 - b.1) + (a.2 - b.2) * (a.2 - b.2) = (b.1 - a.1) * (b.1 - a.1) + (b.2 - a.2) * (b.2 - a.2) := by ring
    rw [eo, et, ed, neg_eq_zero]
    constructor <;> rintro ⟨h0, h1, h2⟩ <;> refine ⟨h0, ?_, ?_⟩ <;> linarith

theorem specCross_swap (a b p : F × F) : specCross b a p = specCross a b p := by
  rw [specCross_eq, specCross_eq]
  have eo : orient2 b.1 b.2 a.1 a.2 p.1 p.2 = -orient2 a.1 a.2 b.1 b.2 p.1 p.2 := by simp only [orient2]; ring
  rw [eo]
  by_cases h1 : p.2 < a.2 <;> by_cases h2 : p.2 < b.2 <;> simp only [h1, h2, iff_self, not_true_eq_false, false_and, iff_false, iff_true,
    not_false_eq_true, true_and, not_not]
  · have h3 : b.2 < a.2 := by push Not at h2; linarith
    have h4 : ¬ a.2 < b.2 := by push Not at h2; exact not_lt.mpr (by linarith)
    simp [h3, h4]
  · have h3 : ¬ b.2 < a.2 := by push Not at h1; exact not_lt.mpr (by linarith)
    have h4 : a.2 < b.2 := by push Not at h1; linarith
    simp [h3, h4]

/-- **T16.4 (direction of the cycle)** -/
theorem T16_4_reverse (vs : List (F × F)) (p : F × F) :
    Spec.inPolygon (vs.reverse.map lst) (lst p) = Spec.inPolygon (vs.map lst) (lst p) := by
  rw [inPolygon_unfold, inPolygon_unfold]
  have h := cycleEdges_reverse_perm vs
  rw [h.any_eq, (h.filter _).length_eq, List.any_map, List.filter_map, List.length_map]
  have f1 : ((fun e : (F × F) × F × F => Spec.onSegment (lst e.1) (lst e.2) (lst p)) ∘ Prod.swap)
      = fun e => Spec.onSegment (lst e.1) (lst e.2) (lst p) := by
    funext e; exact onSegment_swap e.1 e.2 p
  have f2 : ((fun e : (F × F) × F × F => specCross e.1 e.2 p) ∘ Prod.swap) = fun e => specCross e.1 e.2 p := by
    funext e; exact specCross_swap e.1 e.2 p
  rw [f1, f2]

/-- … and so does the model of `PolygonTensor.contains` (through T16.3) -/
theorem T16_4_model_rotate (v : F × F) (rest : List (F × F)) (p : F × F) (hne : ∀ e ∈ cycleEdges (v :: rest), e.1 ≠ e.2) :
    polyContains ((rest ++ [v]).map homP) (homP p) = polyContains ((v :: rest).map homP) (homP p) := by
  have hne' : ∀ e ∈ cycleEdges (rest ++ [v]), e.1 ≠ e.2 := fun e he => hne e ((cycleEdges_rotate_perm v rest).mem_iff.mp he)
  rw [T16_3_polygon_contains _ p hne', T16_3_polygon_contains _ p hne, T16_4_rotate]

theorem T16_4_model_reverse (vs : List (F × F)) (p : F × F) (hne : ∀ e ∈ cycleEdges vs, e.1 ≠ e.2) :
    polyContains (vs.reverse.map homP) (homP p) = polyContains (vs.map homP) (homP p) := by
  have hne' : ∀ e ∈ cycleEdges vs.reverse, e.1 ≠ e.2 := by
    intro e he
    have := (cycleEdges_reverse_perm vs).mem_iff.mp he
    obtain ⟨e', he', rfl⟩ := List.mem_map.mp this
    exact fun h => hne e' he' h.symm
  rw [T16_3_polygon_contains _ p hne', T16_3_polygon_contains _ p hne, T16_4_reverse]
end invariance
end Geo
