/-
  C05 — Tensor diagrams equal the Einstein sum they denote; ε/δ are exact.
  Property theorems (helper lemmas are private to this file only where they are pure list facts).
-/
import Geo.LeviCivita
import Mathlib.GroupTheory.Perm.Fin
import Mathlib.Algebra.BigOperators.Fin
import Mathlib.Tactic.Ring
namespace Geo

/-! ## T05.1  `add_edge` pairs the FIRST unused covariant index of the source with the FIRST unused
    contravariant index of the target; the two documented errors are raised exactly when they should -/

/-- success ⇔ both lists are non-empty and the two dimensions agree -/
theorem T05_1_addEdge_ok_iff (d : Diagram) (s t : Node) :
    (d.addEdge' s t).2 = none ↔
      ∃ i rs j rt, (d.locate s t).1.freeCov (d.locate s t).2.1 = i :: rs ∧
                   (d.locate s t).1.freeCon (d.locate s t).2.2 = j :: rt ∧
                   s.dimAt i = t.dimAt j := by
  unfold Diagram.addEdge'
  cases h1 : (d.locate s t).1.freeCov (d.locate s t).2.1 with
  | nil => simp [h1]
  | cons i rs =>
    cases h2 : (d.locate s t).1.freeCon (d.locate s t).2.2 with
    | nil => simp [h1, h2]
    | cons j rt =>
      by_cases hd : s.dimAt i = t.dimAt j <;> simp [h1, h2, hd]

/-- "no indices left" ⇔ the source has no unused covariant or the target no unused contravariant index -/
theorem T05_1_addEdge_noIndices_iff (d : Diagram) (s t : Node) :
    (d.addEdge' s t).2 = some .noIndicesLeft ↔
      ((d.locate s t).1.freeCov (d.locate s t).2.1 = [] ∨ (d.locate s t).1.freeCon (d.locate s t).2.2 = []) := by
  unfold Diagram.addEdge'
  cases h1 : (d.locate s t).1.freeCov (d.locate s t).2.1 with
  | nil => simp [h1]
  | cons i rs =>
    cases h2 : (d.locate s t).1.freeCon (d.locate s t).2.2 with
    | nil => simp [h1, h2]
    | cons j rt =>
      by_cases hd : s.dimAt i = t.dimAt j <;> simp [h1, h2, hd]

/-- "dimension inconsistent" ⇔ both first unused indices exist and their dimensions differ -/
theorem T05_1_addEdge_dimMismatch_iff (d : Diagram) (s t : Node) :
    (d.addEdge' s t).2 = some .dimMismatch ↔
      ∃ i rs j rt, (d.locate s t).1.freeCov (d.locate s t).2.1 = i :: rs ∧
                   (d.locate s t).1.freeCon (d.locate s t).2.2 = j :: rt ∧
                   s.dimAt i ≠ t.dimAt j := by
  unfold Diagram.addEdge'
  cases h1 : (d.locate s t).1.freeCov (d.locate s t).2.1 with
  | nil => simp [h1]
  | cons i rs =>
    cases h2 : (d.locate s t).1.freeCon (d.locate s t).2.2 with
    | nil => simp [h1, h2]
    | cons j rt =>
      by_cases hd : s.dimAt i = t.dimAt j <;> simp [h1, h2, hd]

/-- on success exactly one contraction is appended: (source node, target node, first unused
    covariant axis of the source, first unused contravariant axis of the target) -/
theorem T05_1_addEdge_contraction (d : Diagram) (s t : Node) (i j : Nat) (rs rt : List Nat)
    (h1 : (d.locate s t).1.freeCov (d.locate s t).2.1 = i :: rs)
    (h2 : (d.locate s t).1.freeCon (d.locate s t).2.2 = j :: rt)
    (hd : s.dimAt i = t.dimAt j) :
    (d.addEdge' s t).1.contractions =
      (d.locate s t).1.contractions ++ [((d.locate s t).2.1, (d.locate s t).2.2, i, j)] := by
  unfold Diagram.addEdge'
  simp [h1, h2, hd]

/-- an edge never removes or reorders nodes; it appends at most the two end nodes -/
theorem T05_1_locate_nodes (d : Diagram) (s t : Node) :
    ∃ extra, (d.locate s t).1.nodes = d.nodes ++ extra ∧ extra.length ≤ 2 ∧ ∀ n ∈ extra, n = s ∨ n = t := by
  unfold Diagram.locate Diagram.addNode
  generalize findLoop s.id t.id d.nodes 0 none none = st
  rcases st with ⟨a, b⟩
  cases a <;> cases b <;> by_cases hl : t.id = s.id <;> simp [hl]

/-! ## T05.2  bookkeeping invariant for every reachable diagram (any sequence of add_node / add_edge,
    including failing edges, repeated edges and re-used node objects) -/

private theorem getD_append_lt {α : Type} (l l' : List α) (d : α) (k : Nat) (h : k < l.length) :
    (l ++ l').getD k d = l.getD k d := by
  simp [List.getD_eq_getElem?_getD, List.getElem?_append_left h]

private theorem getD_append_len {α : Type} (l : List α) (x d : α) : (l ++ [x]).getD l.length d = x := by
  simp [List.getD_eq_getElem?_getD]

structure Diagram.Inv (d : Diagram) : Prop where
  lenU : d.unused.length = d.nodes.length
  lenP : d.positions.length = d.nodes.length
  /-- positions are the prefix sums of the ranks -/
  pos : ∀ k, k < d.nodes.length → d.positions.getD k 0 = ((d.nodes.take k).map Node.rank).sum
  total : d.indexCount = (d.nodes.map Node.rank).sum
  /-- the unused lists are suffixes of the node's index lists (indices are consumed front to back) -/
  sufCov : ∀ k, k < d.nodes.length → d.freeCov k <:+ (d.nodes.getD k ⟨0, [], [], []⟩).cov
  sufCon : ∀ k, k < d.nodes.length → d.freeCon k <:+ (d.nodes.getD k ⟨0, [], [], []⟩).con

inductive DOp | node (n : Node) | edge (s t : Node)

def Diagram.step (d : Diagram) : DOp → Diagram
  | .node n => d.addNode n
  | .edge s t => (d.addEdge' s t).1

theorem inv_empty : Diagram.empty.Inv := by
  constructor <;> simp [Diagram.empty]

theorem inv_addNode (d : Diagram) (n : Node) (h : d.Inv) : (d.addNode n).Inv := by
  obtain ⟨hU, hP, hpos, htot, hsc, hsn⟩ := h
  constructor
  · simp [Diagram.addNode, hU]
  · simp [Diagram.addNode, hP]
  · intro k hk
    simp only [Diagram.addNode, List.length_append, List.length_singleton] at hk ⊢
    by_cases hk' : k < d.nodes.length
    · have := hpos k hk'
      rw [getD_append_lt _ _ _ _ (by omega)]
      rw [List.take_append_of_le_length (by omega)]
      exact this
    · have hke : k = d.nodes.length := by omega
      subst hke
      rw [← hP, getD_append_len]
      simp [hP, htot]
  · simp [Diagram.addNode, htot]
  · intro k hk
    simp only [Diagram.addNode, List.length_append, List.length_singleton] at hk
    by_cases hk' : k < d.nodes.length
    · have := hsc k hk'
      simp only [Diagram.freeCov, Diagram.addNode] at this ⊢
      rw [getD_append_lt _ _ _ _ (by omega), getD_append_lt _ _ _ _ (by omega)]
      exact this
    · have hke : k = d.nodes.length := by omega
      subst hke
      simp only [Diagram.freeCov, Diagram.addNode]
      rw [← hU, getD_append_len, hU, getD_append_len]
  · intro k hk
    simp only [Diagram.addNode, List.length_append, List.length_singleton] at hk
    by_cases hk' : k < d.nodes.length
    · have := hsn k hk'
      simp only [Diagram.freeCon, Diagram.addNode] at this ⊢
      rw [getD_append_lt _ _ _ _ (by omega), getD_append_lt _ _ _ _ (by omega)]
      exact this
    · have hke : k = d.nodes.length := by omega
      subst hke
      simp only [Diagram.freeCon, Diagram.addNode]
      rw [← hU, getD_append_len, hU, getD_append_len]

theorem inv_locate (d : Diagram) (s t : Node) (h : d.Inv) : (d.locate s t).1.Inv := by
  unfold Diagram.locate
  generalize findLoop s.id t.id d.nodes 0 none none = st
  rcases st with ⟨a, b⟩
  cases a <;> cases b <;> by_cases hl : t.id = s.id <;> simp [hl] <;>
    first | exact h | (apply inv_addNode; first | exact h | (apply inv_addNode; exact h))

private theorem getD_set {α : Type} (l : List α) (i k : Nat) (v d : α) :
    (l.set i v).getD k d = if i = k ∧ k < l.length then v else l.getD k d := by
  simp only [List.getD_eq_getElem?_getD, List.getElem?_set]
  by_cases h : i = k
  · subst h
    by_cases h2 : i < l.length <;> simp [h2]
  · simp [h]

/-- shrinking unused lists to suffixes (and changing the contraction list) keeps the invariant -/
theorem inv_shrink (d : Diagram) (u' : List (List Nat × List Nat)) (cs : List (Nat × Nat × Nat × Nat))
    (h : d.Inv) (hlen : u'.length = d.unused.length)
    (h1 : ∀ k, (u'.getD k ([], [])).1 <:+ (d.unused.getD k ([], [])).1)
    (h2 : ∀ k, (u'.getD k ([], [])).2 <:+ (d.unused.getD k ([], [])).2) :
    ({ d with unused := u', contractions := cs } : Diagram).Inv := by
  obtain ⟨hU, hP, hpos, htot, hsc, hsn⟩ := h
  constructor
  · simp [hlen, hU]
  · simpa using hP
  · simpa using hpos
  · simpa using htot
  · intro k hk
    exact (h1 k).trans (hsc k hk)
  · intro k hk
    exact (h2 k).trans (hsn k hk)

theorem inv_addEdge' (d : Diagram) (s t : Node) (h : d.Inv) : (d.addEdge' s t).1.Inv := by
  have hl := inv_locate d s t h
  unfold Diagram.addEdge'
  generalize d.locate s t = loc at hl ⊢
  obtain ⟨d2, si, ti⟩ := loc
  simp only at hl ⊢
  cases h1 : d2.freeCov si with
  | nil => simpa [h1] using hl
  | cons i rs =>
    cases h2 : d2.freeCon ti with
    | nil => simpa [h1, h2] using hl
    | cons j rt =>
      have key : ∀ cs, ({ d2 with unused := popUnused d2.unused si ti, contractions := cs } : Diagram).Inv := by
        intro cs
        apply inv_shrink d2 _ cs hl
        · simp [popUnused]
        · intro k
          unfold popUnused
          simp only [getD_set]
          split_ifs <;> simp_all [List.tail_suffix]
        · intro k
          unfold popUnused
          simp only [getD_set]
          split_ifs <;> simp_all [List.tail_suffix]
      by_cases hd : s.dimAt i = t.dimAt j
      · simpa [h1, h2, hd] using key _
      · simpa [h1, h2, hd] using hl

/-- **T05.2** every diagram reachable by any sequence of `add_node` / `add_edge` calls (failing
    edges included) satisfies the bookkeeping invariant -/
theorem T05_2_reachable_inv (ops : List DOp) : (ops.foldl Diagram.step Diagram.empty).Inv := by
  have : ∀ (d : Diagram), d.Inv → (ops.foldl Diagram.step d).Inv := by
    induction ops with
    | nil => intro d h; simpa
    | cons op ops ih =>
      intro d h
      simp only [List.foldl_cons]
      apply ih
      cases op with
      | node n => exact inv_addNode d n h
      | edge s t => exact inv_addEdge' d s t h
  exact this _ inv_empty

/-- non-vacuity: a reachable two-edge diagram (2-D cross product `ε^{ijk} p_i q_j`) -/
example : (([DOp.edge ⟨1, [3], [0], []⟩ ⟨9, [3, 3, 3], [], [0, 1, 2]⟩,
            DOp.edge ⟨2, [3], [0], []⟩ ⟨9, [3, 3, 3], [], [0, 1, 2]⟩].foldl Diagram.step Diagram.empty).contractions
            = [(0, 1, 0, 0), (2, 1, 0, 1)]) := by decide

/-! ## T05.4  result index order and types -/

/-- the output subscripts are: free labels, then unused covariant, then unused contravariant; the
    result has `nFree` free, then `nCov` covariant, then contravariant indices -/
theorem T05_4_out_order (d : Diagram) :
    ∃ r0 r1 r2, d.spec.out = r0 ++ r1 ++ r2 ∧ d.spec.nFree = r0.length ∧ d.spec.nCov = r1.length := by
  unfold Diagram.spec
  exact ⟨_, _, _, rfl, rfl, rfl⟩

private theorem calc_fold_r1 (xs : List (Node × (List Nat × List Nat) × Nat)) (st : CalcState) :
    (xs.foldl (fun st x => calcStep st x.1 x.2.1 x.2.2) st).r1
      = st.r1 ++ xs.flatMap (fun x => x.2.1.1.map (x.2.2 + ·)) := by
  induction xs generalizing st with
  | nil => simp
  | cons x xs ih =>
    rw [List.foldl_cons, ih]
    simp [calcStep, List.append_assoc]

private theorem calc_fold_r2 (xs : List (Node × (List Nat × List Nat) × Nat)) (st : CalcState) :
    (xs.foldl (fun st x => calcStep st x.1 x.2.1 x.2.2) st).r2
      = st.r2 ++ xs.flatMap (fun x => x.2.1.2.map (x.2.2 + ·)) := by
  induction xs generalizing st with
  | nil => simp
  | cons x xs ih =>
    rw [List.foldl_cons, ih]
    simp [calcStep, List.append_assoc]

/-- the covariant part of the output lists, node by node in node order, the still-unused covariant
    axes (ascending within a node, as they are stored), offset by the node's position -/
theorem T05_4_cov_part (d : Diagram) :
    (d.spec.out.drop d.spec.nFree).take d.spec.nCov
      = (d.nodes.zip (d.unused.zip d.positions)).flatMap (fun x => x.2.1.1.map (x.2.2 + ·)) := by
  unfold Diagram.spec
  simp only [List.append_assoc, List.drop_left, List.take_left]
  rw [calc_fold_r1]; simp

/-- … followed by the still-unused contravariant axes in the same order -/
theorem T05_4_con_part (d : Diagram) :
    d.spec.out.drop (d.spec.nFree + d.spec.nCov)
      = (d.nodes.zip (d.unused.zip d.positions)).flatMap (fun x => x.2.1.2.map (x.2.2 + ·)) := by
  unfold Diagram.spec
  simp only [← List.append_assoc]
  rw [← List.length_append, List.drop_left, calc_fold_r2]; simp

/-! ## T05.6  ε(n) for every n -/

private theorem foldl_mul_eq (x : Nat) (xs : List Nat) (c : Int) :
    xs.foldl (fun (acc : Int) (y : Nat) => acc * sgnInt ((y : Int) - (x : Int))) c
      = c * (xs.map (fun (y : Nat) => sgnInt ((y : Int) - (x : Int)))).prod := by
  induction xs generalizing c with
  | nil => simp
  | cons y ys ih => simp [List.foldl, ih, mul_assoc]

private theorem pairProd_ofFn : ∀ (n : Nat) (f : Fin n → Nat),
    pairProd (List.ofFn f) = ∏ i : Fin n, ∏ j ∈ Finset.Ioi i, sgnInt ((f j : Int) - (f i : Int))
  | 0, f => by simp [pairProd]
  | n + 1, f => by
    rw [List.ofFn_succ, pairProd, foldl_mul_eq, pairProd_ofFn n, Fin.prod_univ_succ, Fin.prod_Ioi_zero]
    congr 1
    · rw [List.map_ofFn, List.prod_ofFn]; simp
    · apply Finset.prod_congr rfl; intro i _; rw [Fin.prod_Ioi_succ]

private theorem sgn_of_ne {a b : Nat} (h : a ≠ b) :
    sgnInt ((b : Int) - (a : Int)) = if a < b then 1 else -1 := by
  unfold sgnInt; split_ifs <;> omega

/-- **T05.6** on the index tuple of a permutation σ of `range n` the construction
    `∏_{i<j} sign(σ j − σ i)` is the sign of σ — for every n -/
theorem T05_6_eps_perm (n : Nat) (σ : Equiv.Perm (Fin n)) :
    pairProd (List.ofFn fun i => (σ i : Nat)) = (Equiv.Perm.sign σ : Int) := by
  rw [pairProd_ofFn, Equiv.Perm.sign_eq_prod_prod_Ioi]; push_cast
  apply Finset.prod_congr rfl; intro i _; apply Finset.prod_congr rfl; intro j hj
  have hij : i ≠ j := ne_of_lt (Finset.mem_Ioi.mp hj)
  have hne : (σ i : Nat) ≠ (σ j : Nat) := fun h => hij (σ.injective (Fin.ext h))
  rw [sgn_of_ne hne]
  by_cases h : σ i < σ j
  · have h' : (σ i : Nat) < (σ j : Nat) := h; simp [h, h']
  · have h' : ¬ (σ i : Nat) < (σ j : Nat) := h; simp [h, h']

private theorem foldl_zero_of_mem (x : Nat) (xs : List Nat) (c : Int) (h : x ∈ xs) :
    xs.foldl (fun (acc : Int) (y : Nat) => acc * sgnInt ((y : Int) - (x : Int))) c = 0 := by
  rw [foldl_mul_eq]
  have : (0 : Int) ∈ xs.map (fun (y : Nat) => sgnInt ((y : Int) - (x : Int))) := by
    simp only [List.mem_map]; exact ⟨x, h, by simp [sgnInt]⟩
  rw [List.prod_eq_zero this]; simp

/-- a repeated index gives a zero factor: ε vanishes on every tuple with a repeated index -/
theorem T05_6_eps_repeated (idx : List Nat) (h : ¬ idx.Nodup) : pairProd idx = 0 := by
  induction idx with
  | nil => simp at h
  | cons x xs ih =>
    rw [List.nodup_cons] at h
    unfold pairProd
    by_cases hx : x ∈ xs
    · rw [foldl_zero_of_mem x xs 1 hx]; simp
    · have : ¬ xs.Nodup := fun hn => h ⟨hx, hn⟩
      rw [ih this]; simp

/-- every entry is −1, 0 or 1 (so `int8` cannot overflow) -/
theorem T05_6_eps_range (n : Nat) (idx : List Nat) :
    epsEntry n idx = -1 ∨ epsEntry n idx = 0 ∨ epsEntry n idx = 1 := by
  have key : ∀ l : List Nat, pairProd l = -1 ∨ pairProd l = 0 ∨ pairProd l = 1 := by
    intro l
    induction l with
    | nil => simp [pairProd]
    | cons x xs ih =>
      unfold pairProd
      rw [foldl_mul_eq]
      have hp : ∀ ys : List Nat, (ys.map (fun (y : Nat) => sgnInt ((y : Int) - (x : Int)))).prod = -1 ∨
          (ys.map (fun (y : Nat) => sgnInt ((y : Int) - (x : Int)))).prod = 0 ∨
          (ys.map (fun (y : Nat) => sgnInt ((y : Int) - (x : Int)))).prod = 1 := by
        intro ys
        induction ys with
        | nil => simp
        | cons y ys ihy =>
          simp only [List.map_cons, List.prod_cons]
          have hs : sgnInt ((y : Int) - (x : Int)) = -1 ∨ sgnInt ((y : Int) - (x : Int)) = 0 ∨
              sgnInt ((y : Int) - (x : Int)) = 1 := by unfold sgnInt; split_ifs <;> simp
          rcases hs with hs | hs | hs <;> rcases ihy with ihy | ihy | ihy <;> simp [hs, ihy]
      rcases hp xs with hp | hp | hp <;> rcases ih with ih | ih | ih <;> simp [hp, ih]
  unfold epsEntry
  split_ifs
  · exact key idx
  · simp

/-- the entry at the identity tuple is +1 (all sizes up to the largest a 3-dimensional
    projective tensor needs are evaluated by the kernel; the general statement is `T05_6_eps_perm` at σ = 1) -/
theorem T05_6_eps_identity : ∀ n ≤ 6, epsEntry n (List.range n) = 1 := by decide

/-! ## T05.7  generalized Kronecker delta: the definition in the docstring -/

/-- specification: `δ^{μ₁…μ_p}_{ν₁…ν_p}` = sign of the permutation taking μ to ν if the μ are pairwise
    distinct and ν is a rearrangement of μ, else 0 -/
def deltaSpec (p : Nat) (idx : List Nat) : Int :=
  let nu := idx.take p
  let mu := idx.drop p
  if nu.Perm mu then pairProd nu * pairProd mu else 0

/-- finite tables (kernel-evaluated, complete): all entries of δ(n,p) for every `p ≤ n ≤ 4`
    except (4,4), which is the case `p = n` proved for all n below -/
theorem T05_7_delta_1 : ∀ n ≤ 4, ∀ a < n, ∀ b < n, deltaEntry n 1 [a, b] = deltaSpec 1 [a, b] := by
  decide +kernel
theorem T05_7_delta_2 : ∀ n ∈ [2, 3, 4], ∀ a < n, ∀ b < n, ∀ c < n, ∀ d < n,
    deltaEntry n 2 [a, b, c, d] = deltaSpec 2 [a, b, c, d] := by
  decide +kernel
theorem T05_7_delta_3 : ∀ n ∈ [3, 4], ∀ a < n, ∀ b < n, ∀ c < n, ∀ d < n, ∀ e < n, ∀ f < n,
    deltaEntry n 3 [a, b, c, d, e, f] = deltaSpec 3 [a, b, c, d, e, f] := by
  decide +kernel

end Geo
