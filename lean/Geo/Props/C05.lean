import Geo.LeviCivita
namespace Geo
theorem C05_placeholder : (1 : Nat) = 1 := rfl
end Geo
