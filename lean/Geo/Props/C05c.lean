/-
  C05c — the per-node loop of `TensorDiagram.calculate` as a whole (collections included).

  `T05_5_calcStep_align` (C05b) is about ONE pass through the loop body.  Here the whole loop is treated, for any number of
  nodes with any numbers of collection axes:

  * `T05_5_calc_align_all`: in the einsum call that `calculate` issues, the j-th collection axis from the right of EVERY operand
    carries the j-th free label from the right of the OUTPUT (right alignment = NumPy broadcasting of the collection axes),
    and every tensor axis carries the label the relabelling loop gave it;
  * `T05_5_free_labels_are_positions`: the free output labels are positions of collection axes, so no tensor axis carries one;
  * `T04_1_spec_alignment`: the same, stated for `Diagram.spec` of a diagram that satisfies the representation invariant `Inv`
    (every reachable diagram does, `T05_2_reachable_inv`).

  These are the hypotheses `h3` / `h4` of `T04_2_elementwise` (C04): together they say that the library's collections are
  evaluated position by position.
-/
import Geo.Props.C05
import Geo.Props.C05b
namespace Geo

abbrev CalcItem := Node × (List Nat × List Nat) × Nat

def calcFold (xs : List CalcItem) (st : CalcState) : CalcState :=
  xs.foldl (fun st x => calcStep st x.1 x.2.1 x.2.2) st

@[simp] theorem calcFold_nil (st : CalcState) : calcFold [] st = st := rfl
@[simp] theorem calcFold_cons (x : CalcItem) (xs : List CalcItem) (st : CalcState) :
    calcFold (x :: xs) st = calcFold xs (calcStep st x.1 x.2.1 x.2.2) := rfl

private theorem foldl_set_length {β : Type} (l : List β) (ind : List Nat) (f : β → Nat) (g : β → Nat) :
    (l.foldl (fun acc b => acc.set (f b) (g b)) ind).length = ind.length := by
  induction l generalizing ind with
  | nil => rfl
  | cons b l ih => simp [List.foldl_cons, ih]

theorem calcStep_indices_length (st : CalcState) (node : Node) (ind : List Nat × List Nat) (offset : Nat) :
    (calcStep st node ind offset).indices.length = st.indices.length := by
  simp only [calcStep]
  exact foldl_set_length _ _ (fun (kj : Nat × Nat) => offset + kj.1) (fun (kj : Nat × Nat) => st.r0.getD (st.r0.length - kj.2 - 1) 0)

/-- one pass only writes the positions of the node's own collection axes -/
theorem calcStep_indices_outside (st : CalcState) (node : Node) (ind : List Nat × List Nat) (offset : Nat)
    (hlen : offset + node.nfree ≤ st.indices.length) (q : Nat) (hq : q < offset ∨ offset + node.nfree ≤ q) :
    (calcStep st node ind offset).indices.getD q 0 = st.indices.getD q 0 := by
  have hidx : (calcStep st node ind offset).indices
      = ((List.range (min st.r0.length node.nfree)).map fun i => (node.nfree - 1 - i, i)).foldl
          (fun acc (kj : Nat × Nat) => acc.set (offset + kj.1) (st.r0.getD (st.r0.length - kj.2 - 1) 0)) st.indices := by
    simp only [calcStep]
    rw [matched_list]
  rw [hidx]
  obtain ⟨-, -, h3⟩ := set_fold st.indices offset node.nfree (min st.r0.length node.nfree)
    (fun i => st.r0.getD (st.r0.length - i - 1) 0) (Nat.min_le_right _ _) hlen
  apply h3
  intro j hj
  have : j < node.nfree := Nat.lt_of_lt_of_le hj (Nat.min_le_right _ _)
  omega

theorem calcStep_ops (st : CalcState) (node : Node) (ind : List Nat × List Nat) (offset : Nat) :
    (calcStep st node ind offset).ops
      = st.ops ++ [((calcStep st node ind offset).indices.drop offset).take node.rank] := by
  simp only [calcStep]

theorem calcStep_r0 (st : CalcState) (node : Node) (ind : List Nat × List Nat) (offset : Nat) :
    (calcStep st node ind offset).r0 = (List.range (node.nfree - st.r0.length)).map (offset + ·) ++ st.r0 := by
  simp only [calcStep]
  rw [push_front, unmatched_list]

theorem calcFold_indices_length (xs : List CalcItem) (st : CalcState) :
    (calcFold xs st).indices.length = st.indices.length := by
  induction xs generalizing st with
  | nil => rfl
  | cons x xs ih => rw [calcFold_cons, ih, calcStep_indices_length]

theorem calcFold_ops_prefix (xs : List CalcItem) (st : CalcState) :
    ∃ suf, (calcFold xs st).ops = st.ops ++ suf ∧ suf.length = xs.length := by
  induction xs generalizing st with
  | nil => exact ⟨[], by simp⟩
  | cons x xs ih =>
    obtain ⟨suf, h, hl⟩ := ih (calcStep st x.1 x.2.1 x.2.2)
    refine ⟨((calcStep st x.1 x.2.1 x.2.2).indices.drop x.2.2).take x.1.rank :: suf, ?_, by simp [hl]⟩
    rw [calcFold_cons, h, calcStep_ops]
    simp

theorem calcFold_r0_suffix (xs : List CalcItem) (st : CalcState) :
    ∃ pre, (calcFold xs st).r0 = pre ++ st.r0 := T05_5_r0_suffix xs st

private theorem getD_take_drop (l : List Nat) (off r i : Nat) (hi : i < r) :
    ((l.drop off).take r).getD i 0 = l.getD (off + i) 0 := by
  simp only [List.getD_eq_getElem?_getD, List.getElem?_take, hi, if_true, List.getElem?_drop]

private theorem getD_suffix (pre l : List Nat) (j : Nat) (hj : j < l.length) :
    (pre ++ l).getD ((pre ++ l).length - 1 - j) 0 = l.getD (l.length - 1 - j) 0 := by
  simp only [List.getD_eq_getElem?_getD, List.length_append]
  rw [List.getElem?_append_right (by omega)]
  congr 2
  omega

/-- **T05.5 (the whole loop, collections included).**  `xs` = the nodes with their unused indices and positions, in node order;
    the index blocks `[offset, offset + rank)` of different nodes do not overlap (positions are prefix sums of ranks), and the
    collection axes still carry their own numbers (no contraction ends there).  Then for EVERY operand of the einsum call:
    (1) its j-th collection axis from the right carries the j-th free label from the right of the final output, and
    (2) its tensor axes carry the labels of the relabelling loop. -/
theorem T05_5_calc_align_all (xs : List CalcItem) : ∀ (st : CalcState),
    xs.Pairwise (fun x y => x.2.2 + x.1.rank ≤ y.2.2) →
    (∀ x ∈ xs, x.2.2 + x.1.rank ≤ st.indices.length) →
    (∀ x ∈ xs, x.1.nfree ≤ x.1.rank) →
    (∀ x ∈ xs, ∀ k, k < x.1.nfree → st.indices.getD (x.2.2 + k) 0 = x.2.2 + k) →
    (calcFold xs st).ops.length = st.ops.length + xs.length ∧
    ∀ k (hk : k < xs.length),
      (∀ j, j < xs[k].1.nfree →
        ((calcFold xs st).ops.getD (st.ops.length + k) []).getD (xs[k].1.nfree - 1 - j) 0
          = (calcFold xs st).r0.getD ((calcFold xs st).r0.length - 1 - j) 0) ∧
      (∀ i, xs[k].1.nfree ≤ i → i < xs[k].1.rank →
        ((calcFold xs st).ops.getD (st.ops.length + k) []).getD i 0 = st.indices.getD (xs[k].2.2 + i) 0) := by
  induction xs with
  | nil => intro st _ _ _ _; exact ⟨by simp, fun k hk => absurd hk (by simp)⟩
  | cons x xs ih =>
    intro st hpw hlen hnf hown
    have hx_len := hlen x List.mem_cons_self
    have hx_nf := hnf x List.mem_cons_self
    have hx_own := hown x List.mem_cons_self
    have hlen_free : x.2.2 + x.1.nfree ≤ st.indices.length := by omega
    rw [List.pairwise_cons] at hpw
    obtain ⟨hx_before, hpw'⟩ := hpw
    -- the state after the pass for x
    let st1 := calcStep st x.1 x.2.1 x.2.2
    have hst1 : st1 = calcStep st x.1 x.2.1 x.2.2 := rfl
    have hst1_len : st1.indices.length = st.indices.length := calcStep_indices_length _ _ _ _
    have hst1_ops : st1.ops = st.ops ++ [(st1.indices.drop x.2.2).take x.1.rank] := calcStep_ops _ _ _ _
    have hout : ∀ q, (q < x.2.2 ∨ x.2.2 + x.1.nfree ≤ q) → st1.indices.getD q 0 = st.indices.getD q 0 :=
      fun q hq => calcStep_indices_outside st x.1 x.2.1 x.2.2 hlen_free q hq
    obtain ⟨ih1, ih2⟩ := ih st1 hpw'
      (fun y hy => by rw [hst1_len]; exact hlen y (List.mem_cons_of_mem _ hy))
      (fun y hy => hnf y (List.mem_cons_of_mem _ hy))
      (fun y hy k hk => by
        have hb := hx_before y hy
        rw [hout _ (Or.inr (by omega))]
        exact hown y (List.mem_cons_of_mem _ hy) k hk)
    have hops_len1 : st1.ops.length = st.ops.length + 1 := by rw [hst1_ops]; simp
    rw [calcFold_cons]
    refine ⟨by rw [ih1, hops_len1]; simp; omega, ?_⟩
    intro k hk
    cases k with
    | zero =>
      simp only [List.getElem_cons_zero, Nat.add_zero]
      -- the operand of x is the snapshot taken in its own pass
      obtain ⟨suf, hsuf, -⟩ := calcFold_ops_prefix xs st1
      have hop : (calcFold xs st1).ops.getD st.ops.length [] = (st1.indices.drop x.2.2).take x.1.rank := by
        rw [hsuf, hst1_ops]
        simp [List.getD_eq_getElem?_getD]
      rw [hop]
      obtain ⟨pre, hpre⟩ := calcFold_r0_suffix xs st1
      obtain ⟨hr0, halign⟩ := T05_5_calcStep_align st x.1 x.2.1 x.2.2 hx_own hlen_free
      have hr0len : x.1.nfree ≤ st1.r0.length := by
        rw [hst1, hr0]; simp; omega
      constructor
      · intro j hj
        rw [getD_take_drop _ _ _ _ (by omega), hpre, getD_suffix pre st1.r0 j (by omega)]
        exact halign j hj
      · intro i hi1 hi2
        rw [getD_take_drop _ _ _ _ hi2]
        exact hout _ (Or.inr (by omega))
    | succ k =>
      have hk' : k < xs.length := by simpa using hk
      obtain ⟨h1, h2⟩ := ih2 k hk'
      simp only [List.getElem_cons_succ]
      have hidx : st.ops.length + (k + 1) = st1.ops.length + k := by rw [hops_len1]; omega
      rw [hidx]
      refine ⟨h1, ?_⟩
      intro i hi1 hi2
      rw [h2 i hi1 hi2]
      have hb := hx_before xs[k] (List.getElem_mem hk')
      exact hout _ (Or.inr (by omega))

/-- the free output labels are positions of collection axes of the nodes: `offset + k` with `k < nfree` -/
theorem T05_5_free_labels_are_positions (xs : List CalcItem) (st : CalcState) :
    ∀ l ∈ (calcFold xs st).r0, l ∈ st.r0 ∨ ∃ x ∈ xs, ∃ k, k < x.1.nfree ∧ l = x.2.2 + k := by
  induction xs generalizing st with
  | nil => intro l hl; exact Or.inl hl
  | cons x xs ih =>
    intro l hl
    rw [calcFold_cons] at hl
    rcases ih _ l hl with h | ⟨y, hy, k, hk, rfl⟩
    · rw [calcStep_r0] at h
      rcases List.mem_append.mp h with h | h
      · right
        obtain ⟨k, hk, rfl⟩ := List.mem_map.mp h
        exact ⟨x, List.mem_cons_self, k, by have := List.mem_range.mp hk; omega, rfl⟩
      · exact Or.inl h
    · exact Or.inr ⟨y, List.mem_cons_of_mem _ hy, k, hk, rfl⟩

/-- … and they are pairwise distinct (each is pushed once, in front) when the blocks do not overlap -/
theorem T05_5_free_labels_nodup (xs : List CalcItem) : ∀ (st : CalcState),
    xs.Pairwise (fun x y => x.2.2 + x.1.rank ≤ y.2.2) →
    (∀ x ∈ xs, x.1.nfree ≤ x.1.rank) →
    st.r0.Nodup → (∀ l ∈ st.r0, ∀ x ∈ xs, l < x.2.2) →
    (calcFold xs st).r0.Nodup := by
  induction xs with
  | nil => intro st _ _ h _; exact h
  | cons x xs ih =>
    intro st hpw hnf hnd hlt
    rw [List.pairwise_cons] at hpw
    rw [calcFold_cons]
    apply ih _ hpw.2 (fun y hy => hnf y (List.mem_cons_of_mem _ hy))
    · rw [calcStep_r0]
      rw [List.nodup_append]
      refine ⟨?_, hnd, ?_⟩
      · exact (List.nodup_range).map (fun a b h => by omega)
      · intro a ha b hb
        obtain ⟨k, -, rfl⟩ := List.mem_map.mp ha
        have := hlt b hb x List.mem_cons_self
        omega
    · intro l hl y hy
      rw [calcStep_r0] at hl
      have hb := hpw.1 y hy
      have hxn := hnf x List.mem_cons_self
      rcases List.mem_append.mp hl with h | h
      · obtain ⟨k, hk, rfl⟩ := List.mem_map.mp h
        have := List.mem_range.mp hk
        omega
      · have := hlt l h x List.mem_cons_self
        omega

theorem calcFold_split (xs : List CalcItem) (k : Nat) (hk : k < xs.length) (st : CalcState) :
    calcFold xs st
      = calcFold (xs.drop (k + 1)) (calcStep (calcFold (xs.take k) st) xs[k].1 xs[k].2.1 xs[k].2.2) := by
  unfold calcFold
  conv_lhs => rw [← List.take_append_drop k xs, List.drop_eq_getElem_cons hk]
  rw [List.foldl_append, List.foldl_cons]

/-! ## the statement for `Diagram.spec` -/

private theorem sum_take_le (l : List Nat) (k : Nat) : (l.take k).sum ≤ l.sum := by
  induction l generalizing k with
  | nil => simp
  | cons a l ih =>
    cases k with
    | zero => simp
    | succ k => simp only [List.take_succ_cons, List.sum_cons]; have := ih k; omega

private theorem sum_take_succ (l : List Nat) (k : Nat) (hk : k < l.length) :
    (l.take (k + 1)).sum = (l.take k).sum + l[k] := by
  rw [List.take_succ_eq_append_getElem hk, List.sum_append]; simp

private theorem sum_take_mono (l : List Nat) (i j : Nat) (hij : i ≤ j) : (l.take i).sum ≤ (l.take j).sum := by
  have : l.take i = (l.take j).take i := by rw [List.take_take, Nat.min_eq_left hij]
  rw [this]
  exact sum_take_le _ _

/-- the items of the per-node loop of a diagram that satisfies `Inv` -/
def Diagram.items (d : Diagram) : List CalcItem := d.nodes.zip (d.unused.zip d.positions)

theorem items_length (d : Diagram) (h : d.Inv) : d.items.length = d.nodes.length := by
  simp [Diagram.items, h.lenU, h.lenP]

theorem items_get (d : Diagram) (h : d.Inv) (k : Nat) (hk : k < d.items.length) :
    d.items[k].1 = d.nodes[k]'(by rw [← items_length d h]; exact hk) ∧
    d.items[k].2.2 = ((d.nodes.take k).map Node.rank).sum := by
  have hkn : k < d.nodes.length := by rw [← items_length d h]; exact hk
  have hp := h.pos k hkn
  constructor
  · simp [Diagram.items]
  · simp only [Diagram.items, List.getElem_zip]
    rw [← hp, List.getD_eq_getElem?_getD, List.getElem?_eq_getElem (by rw [h.lenP]; exact hkn)]
    rfl

/-- under `Inv` the index blocks of the nodes are consecutive, hence pairwise disjoint and inside `range indexCount` -/
theorem items_blocks (d : Diagram) (h : d.Inv) :
    d.items.Pairwise (fun x y => x.2.2 + x.1.rank ≤ y.2.2) ∧ ∀ x ∈ d.items, x.2.2 + x.1.rank ≤ d.indexCount := by
  constructor
  · rw [List.pairwise_iff_getElem]
    intro i j hi hj hij
    obtain ⟨a1, a2⟩ := items_get d h i hi
    obtain ⟨-, b2⟩ := items_get d h j hj
    have hin : i < d.nodes.length := by rw [← items_length d h]; exact hi
    rw [a1, a2, b2]
    have h1 := sum_take_succ (d.nodes.map Node.rank) i (by simpa using hin)
    have h2 := sum_take_mono (d.nodes.map Node.rank) (i + 1) j (by omega)
    simp only [List.getElem_map, ← List.map_take] at h1 h2
    omega
  · intro x hx
    obtain ⟨k, hk, rfl⟩ := List.getElem_of_mem hx
    obtain ⟨a1, a2⟩ := items_get d h k hk
    have hkn : k < d.nodes.length := by rw [← items_length d h]; exact hk
    rw [a1, a2, h.total]
    have h1 := sum_take_succ (d.nodes.map Node.rank) k (by simpa using hkn)
    have h2 := sum_take_le (d.nodes.map Node.rank) (k + 1)
    simp only [List.getElem_map, ← List.map_take] at h1 h2
    omega

/-- **T04.1 / T05.5 for `Diagram.spec`.**  For a diagram that satisfies the representation invariant (every reachable one), whose
    nodes have their collection axes in front (`nfree ≤ rank`; the `Tensor` constructor guarantees it) and whose collection
    positions are untouched by the relabelling loop (they are no contraction ends, `T05_5_free_label`): operand `k` of the
    einsum call carries, on its j-th collection axis from the right, the j-th of the `nFree` leading output labels from the
    right, and on each tensor axis `i` the label `relabel[position k + i]`. -/
theorem T04_1_spec_alignment (d : Diagram) (h : d.Inv)
    (hnf : ∀ n ∈ d.nodes, n.nfree ≤ n.rank)
    (hown : ∀ x ∈ d.items, ∀ k, k < x.1.nfree →
        (relabel d.positions d.contractions d.indexCount).getD (x.2.2 + k) 0 = x.2.2 + k)
    (hrl : (relabel d.positions d.contractions d.indexCount).length = d.indexCount) :
    d.spec.operands.length = d.nodes.length ∧
    ∀ k (hk : k < d.items.length),
      (∀ j, j < d.items[k].1.nfree →
        (d.spec.operands.getD k []).getD (d.items[k].1.nfree - 1 - j) 0 = d.spec.out.getD (d.spec.nFree - 1 - j) 0) ∧
      (∀ i, d.items[k].1.nfree ≤ i → i < d.items[k].1.rank →
        (d.spec.operands.getD k []).getD i 0
          = (relabel d.positions d.contractions d.indexCount).getD (d.items[k].2.2 + i) 0) := by
  obtain ⟨hpw, hbound⟩ := items_blocks d h
  have key := T05_5_calc_align_all d.items ⟨relabel d.positions d.contractions d.indexCount, [], [], [], []⟩ hpw
    (fun x hx => by simpa [hrl] using hbound x hx)
    (fun x hx => hnf x.1 (List.of_mem_zip hx).1)
    hown
  have hspec_ops : d.spec.operands
      = (calcFold d.items ⟨relabel d.positions d.contractions d.indexCount, [], [], [], []⟩).ops := rfl
  have hspec_out : d.spec.out
      = (calcFold d.items ⟨relabel d.positions d.contractions d.indexCount, [], [], [], []⟩).r0
        ++ (calcFold d.items ⟨relabel d.positions d.contractions d.indexCount, [], [], [], []⟩).r1
        ++ (calcFold d.items ⟨relabel d.positions d.contractions d.indexCount, [], [], [], []⟩).r2 := rfl
  have hspec_nf : d.spec.nFree
      = (calcFold d.items ⟨relabel d.positions d.contractions d.indexCount, [], [], [], []⟩).r0.length := rfl
  obtain ⟨k1, k2⟩ := key
  refine ⟨by rw [hspec_ops, k1, items_length d h]; simp, ?_⟩
  intro k hk
  obtain ⟨a, b⟩ := k2 k hk
  simp only [List.length_nil, Nat.zero_add] at a b
  refine ⟨?_, by rw [hspec_ops]; exact b⟩
  intro j hj
  rw [hspec_ops, a j hj, hspec_out, hspec_nf]
  -- the label is read in the free block of the output
  have hjlt : j < (calcFold d.items ⟨relabel d.positions d.contractions d.indexCount, [], [], [], []⟩).r0.length := by
    -- nfree ≤ |r0| after the pass of the node (T05_5_calcStep_align), and r0 only grows
    have := calcFold_split d.items k hk ⟨relabel d.positions d.contractions d.indexCount, [], [], [], []⟩
    rw [this]
    obtain ⟨pre, hpre⟩ := calcFold_r0_suffix (d.items.drop (k + 1)) (calcStep (calcFold (d.items.take k) ⟨relabel d.positions d.contractions d.indexCount, [], [], [], []⟩)
            d.items[k].1 d.items[k].2.1 d.items[k].2.2)
    rw [hpre, calcStep_r0]
    simp only [List.length_append, List.length_map, List.length_range]
    omega
  simp only [List.getD_eq_getElem?_getD, List.append_assoc]
  rw [List.getElem?_append_left (by omega)]

/-! ## tensor axes never carry a free label -/

/-- a label is the position itself or an end point of a contraction -/
theorem T05_5_label_pos_or_end (cs : List (Nat × Nat)) (n : Nat) (h : (endsList cs).Nodup) (p : Nat) (hp : p < n) :
    (relabelG cs (List.range n)).getD p 0 = p ∨ (relabelG cs (List.range n)).getD p 0 ∈ endsList cs := by
  rw [T05_5_label cs n h p hp]
  cases hf : cs.find? (fun c => max c.1 c.2 = p) with
  | none => left; rfl
  | some c =>
    right
    simp only [Option.map_some, Option.getD_some]
    have hc := List.mem_of_find?_eq_some hf
    simp only [endsList, List.mem_flatMap]
    refine ⟨c, hc, ?_⟩
    rcases Nat.le_total c.1 c.2 with hle | hle
    · simp [Nat.min_eq_left hle]
    · simp [Nat.min_eq_right hle]

/-- position of a collection axis of some node -/
def Diagram.isFreePos (d : Diagram) (p : Nat) : Prop := ∃ x ∈ d.items, ∃ k, k < x.1.nfree ∧ p = x.2.2 + k

/-- **T04.1 (complete).**  For a diagram with the representation invariant whose contraction ends are pairwise distinct
    (`T05_5_positions_nodup`: every reachable diagram) and are never collection axes (edges pair covariant with contravariant
    indices, and those come after the collection axes): in the einsum call of `calculate`
    * the j-th collection axis from the right of every operand carries the j-th free output label from the right,
    * NO tensor axis of any operand carries a free output label.
    These are the hypotheses `h3`, `h4` of `T04_2_elementwise`; no assumption on the label list remains. -/
theorem T04_1_collections_positionwise (d : Diagram) (h : d.Inv)
    (hnf : ∀ n ∈ d.nodes, n.nfree ≤ n.rank)
    (hnd : (endsList (globalEnds d.positions d.contractions)).Nodup)
    (hends : ∀ e ∈ endsList (globalEnds d.positions d.contractions), ¬ d.isFreePos e) :
    ∀ k (hk : k < d.items.length),
      (∀ j, j < d.items[k].1.nfree →
        (d.spec.operands.getD k []).getD (d.items[k].1.nfree - 1 - j) 0 = d.spec.out.getD (d.spec.nFree - 1 - j) 0) ∧
      (∀ i, d.items[k].1.nfree ≤ i → i < d.items[k].1.rank →
        (d.spec.operands.getD k []).getD i 0 ∉ d.spec.out.take d.spec.nFree) := by
  obtain ⟨hpw, hbound⟩ := items_blocks d h
  have hrl : (relabel d.positions d.contractions d.indexCount).length = d.indexCount := by
    rw [relabel_eq_relabelG, relabelG_length]; simp
  have hown : ∀ x ∈ d.items, ∀ k, k < x.1.nfree →
      (relabel d.positions d.contractions d.indexCount).getD (x.2.2 + k) 0 = x.2.2 + k := by
    intro x hx k hk
    rw [relabel_eq_relabelG]
    have hb := hbound x hx
    have hxn := hnf x.1 (List.of_mem_zip hx).1
    exact (T05_5_free_label _ _ hnd (x.2.2 + k) (by omega) (fun he => hends _ he ⟨x, hx, k, hk, rfl⟩)).1
  obtain ⟨-, hal⟩ := T04_1_spec_alignment d h hnf hown hrl
  intro k hk
  obtain ⟨ha, hb⟩ := hal k hk
  refine ⟨ha, ?_⟩
  intro i hi1 hi2 hmem
  -- the label of the tensor axis
  rw [hb i hi1 hi2, relabel_eq_relabelG] at hmem
  have hxk : d.items[k] ∈ d.items := List.getElem_mem hk
  have hbk := hbound _ hxk
  -- a free output label is the position of a collection axis
  have hfreepos : d.isFreePos ((relabelG (globalEnds d.positions d.contractions) (List.range d.indexCount)).getD (d.items[k].2.2 + i) 0) := by
    have hin : (relabelG (globalEnds d.positions d.contractions) (List.range d.indexCount)).getD (d.items[k].2.2 + i) 0
        ∈ (calcFold d.items ⟨relabel d.positions d.contractions d.indexCount, [], [], [], []⟩).r0 := by
      have : d.spec.out.take d.spec.nFree
          = (calcFold d.items ⟨relabel d.positions d.contractions d.indexCount, [], [], [], []⟩).r0 := by
        show ((calcFold d.items ⟨relabel d.positions d.contractions d.indexCount, [], [], [], []⟩).r0
            ++ (calcFold d.items ⟨relabel d.positions d.contractions d.indexCount, [], [], [], []⟩).r1
            ++ (calcFold d.items ⟨relabel d.positions d.contractions d.indexCount, [], [], [], []⟩).r2).take
              (calcFold d.items ⟨relabel d.positions d.contractions d.indexCount, [], [], [], []⟩).r0.length = _
        rw [List.append_assoc, List.take_left]
      rw [← this]; exact hmem
    rcases T05_5_free_labels_are_positions d.items _ _ hin with h0 | h1
    · simp at h0
    · exact h1
  -- but it is the position of a tensor axis, or a contraction end
  rcases T05_5_label_pos_or_end _ d.indexCount hnd (d.items[k].2.2 + i) (by omega) with hself | hend
  · rw [hself] at hfreepos
    obtain ⟨y, hy, j, hj, heq⟩ := hfreepos
    obtain ⟨m, hm, rfl⟩ := List.getElem_of_mem hy
    have hym := hnf d.items[m].1 (List.of_mem_zip (List.getElem_mem hm)).1
    rcases Nat.lt_trichotomy m k with hlt | heq' | hgt
    · have := List.pairwise_iff_getElem.mp hpw m k hm hk hlt
      omega
    · subst heq'; omega
    · have := List.pairwise_iff_getElem.mp hpw k m hk hm hgt
      omega
  · exact hends _ hend hfreepos

/-! ## every reachable diagram: contraction ends are tensor axes, never collection axes -/

/-- the position of a tensor axis of a node is not the position of a collection axis of any node (blocks are disjoint) -/
theorem tensor_pos_not_free (d : Diagram) (h : d.Inv) (hnf : ∀ n ∈ d.nodes, n.nfree ≤ n.rank)
    (m : Nat) (hm : m < d.items.length) (i : Nat) (hi1 : d.items[m].1.nfree ≤ i) (hi2 : i < d.items[m].1.rank) :
    ¬ d.isFreePos (d.items[m].2.2 + i) := by
  obtain ⟨hpw, -⟩ := items_blocks d h
  rintro ⟨y, hy, j, hj, heq⟩
  obtain ⟨k, hk, rfl⟩ := List.getElem_of_mem hy
  have hyk := hnf d.items[k].1 (List.of_mem_zip (List.getElem_mem hk)).1
  rcases Nat.lt_trichotomy k m with hlt | heq' | hgt
  · have := List.pairwise_iff_getElem.mp hpw k m hk hm hlt
    omega
  · subst heq'; omega
  · have := List.pairwise_iff_getElem.mp hpw m k hm hk hgt
    omega

/-- the indices of every contraction are a covariant index of its source node and a contravariant index of its target node -/
structure Diagram.Inv3 (d : Diagram) : Prop where
  base : d.Inv
  cs : ∀ c ∈ d.contractions, c.1 < d.nodes.length ∧ c.2.1 < d.nodes.length ∧
        c.2.2.1 ∈ (d.nodes.getD c.1 ⟨0, [], [], []⟩).cov ∧ c.2.2.2 ∈ (d.nodes.getD c.2.1 ⟨0, [], [], []⟩).con

theorem inv3_empty : Diagram.empty.Inv3 := ⟨inv_empty, by simp [Diagram.empty]⟩

private theorem getD_append_lt3 {α : Type} (l l' : List α) (d : α) (k : Nat) (h : k < l.length) :
    (l ++ l').getD k d = l.getD k d := by
  simp [List.getD_eq_getElem?_getD, List.getElem?_append_left h]

theorem inv3_addNode (d : Diagram) (n : Node) (h : d.Inv3) : (d.addNode n).Inv3 := by
  refine ⟨inv_addNode d n h.base, ?_⟩
  intro c hc
  have hc' : c ∈ d.contractions := by simpa [Diagram.addNode] using hc
  obtain ⟨h1, h2, h3, h4⟩ := h.cs c hc'
  simp only [Diagram.addNode, List.length_append, List.length_singleton]
  refine ⟨by omega, by omega, ?_, ?_⟩
  · rw [getD_append_lt3 _ _ _ _ h1]; exact h3
  · rw [getD_append_lt3 _ _ _ _ h2]; exact h4

theorem inv3_locate (d : Diagram) (s t : Node) (h : d.Inv3) : (d.locate s t).1.Inv3 := by
  unfold Diagram.locate
  generalize findLoop s.id t.id d.nodes 0 none none = st
  rcases st with ⟨a, b⟩
  cases a <;> cases b <;> by_cases hl : t.id = s.id <;> simp [hl] <;>
    first | exact h | (apply inv3_addNode; first | exact h | (apply inv3_addNode; exact h))

theorem inv3_addEdge' (d : Diagram) (s t : Node) (h : d.Inv3) : (d.addEdge' s t).1.Inv3 := by
  have hb := inv_addEdge' d s t h.base
  have hl := inv3_locate d s t h
  refine ⟨hb, ?_⟩
  unfold Diagram.addEdge' at hb ⊢
  generalize d.locate s t = loc at hl hb ⊢
  obtain ⟨d2, si, ti⟩ := loc
  simp only at hl hb ⊢
  cases h1 : d2.freeCov si with
  | nil => simpa [h1] using hl.cs
  | cons i rs =>
    cases h2 : d2.freeCon ti with
    | nil => simpa [h1, h2] using hl.cs
    | cons j rt =>
      by_cases hd : s.dimAt i = t.dimAt j
      · simp only [h1, h2, hd, ne_eq, not_true_eq_false, if_false]
        intro c hc
        rcases List.mem_append.mp hc with hc | hc
        · exact hl.cs c hc
        · simp only [List.mem_singleton] at hc
          subst hc
          -- the new contraction: si, ti are nodes of the diagram, i / j the heads of their unused lists
          have hsi : si < d2.nodes.length := by
            by_contra hge
            have : d2.freeCov si = [] := by
              simp only [Diagram.freeCov, List.getD_eq_getElem?_getD]
              rw [List.getElem?_eq_none (by rw [hl.base.lenU]; omega)]; rfl
            rw [this] at h1; cases h1
          have hti : ti < d2.nodes.length := by
            by_contra hge
            have : d2.freeCon ti = [] := by
              simp only [Diagram.freeCon, List.getD_eq_getElem?_getD]
              rw [List.getElem?_eq_none (by rw [hl.base.lenU]; omega)]; rfl
            rw [this] at h2; cases h2
          refine ⟨hsi, hti, ?_, ?_⟩
          · have := hl.base.sufCov si hsi
            rw [h1] at this
            exact this.subset List.mem_cons_self
          · have := hl.base.sufCon ti hti
            rw [h2] at this
            exact this.subset List.mem_cons_self
      · simpa [h1, h2, hd] using hl.cs

theorem T05_2_reachable_inv3 (ops : List DOp) : (ops.foldl Diagram.step Diagram.empty).Inv3 := by
  have : ∀ (d : Diagram), d.Inv3 → (ops.foldl Diagram.step d).Inv3 := by
    induction ops with
    | nil => intro d h; simpa
    | cons op ops ih =>
      intro d h
      simp only [List.foldl_cons]
      apply ih
      cases op with
      | node n => exact inv3_addNode d n h
      | edge s t => exact inv3_addEdge' d s t h
  exact this _ inv3_empty

/-- under `Inv3`, when the tensor indices of every node come after its collection axes (what the `Tensor` constructor
    guarantees), no contraction end is the position of a collection axis -/
theorem ends_not_free (d : Diagram) (h : d.Inv3)
    (hwf : ∀ n ∈ d.nodes, ∀ i ∈ n.cov ++ n.con, n.nfree ≤ i ∧ i < n.rank)
    (hnf : ∀ n ∈ d.nodes, n.nfree ≤ n.rank) :
    ∀ e ∈ endsList (globalEnds d.positions d.contractions), ¬ d.isFreePos e := by
  intro e he
  simp only [endsList, globalEnds, List.mem_flatMap, List.mem_map] at he
  obtain ⟨g, ⟨c, hc, rfl⟩, he⟩ := he
  obtain ⟨h1, h2, h3, h4⟩ := h.cs c hc
  have hlen := items_length d h.base
  have key : ∀ m (hm : m < d.nodes.length) (i : Nat), i ∈ (d.nodes.getD m ⟨0, [], [], []⟩).cov ++ (d.nodes.getD m ⟨0, [], [], []⟩).con →
      ¬ d.isFreePos (d.positions.getD m 0 + i) := by
    intro m hm i hi
    have hmi : m < d.items.length := by rw [hlen]; exact hm
    obtain ⟨a1, a2⟩ := items_get d h.base m hmi
    have hnode : d.nodes.getD m ⟨0, [], [], []⟩ = d.items[m].1 := by
      rw [a1, List.getD_eq_getElem?_getD, List.getElem?_eq_getElem hm]; rfl
    have hpos : d.positions.getD m 0 = d.items[m].2.2 := by
      rw [a2]; exact h.base.pos m hm
    rw [hnode] at hi
    have hmem : d.items[m].1 ∈ d.nodes := by rw [a1]; exact List.getElem_mem hm
    obtain ⟨b1, b2⟩ := hwf _ hmem i hi
    rw [hpos]
    exact tensor_pos_not_free d h.base hnf m hmi i b1 b2
  simp only [List.mem_cons, List.not_mem_nil, or_false] at he
  rcases he with rfl | rfl
  · exact key c.1 h1 _ (List.mem_append_left _ h3)
  · exact key c.2.1 h2 _ (List.mem_append_right _ h4)

/-- **T04.1 for every reachable diagram.**  Any sequence of `add_node` / `add_edge` calls (refused edges included) on tensors
    whose index lists are duplicate-free and lie behind the collection axes: in the einsum call of `calculate` the collection
    axes of all operands are right-aligned with the free output labels, and no tensor axis carries a free label. -/
theorem T04_1_reachable (ops : List DOp)
    (hnodes : ∀ o ∈ ops, match o with
      | .node n => n.WF
      | .edge s t => s.WF ∧ t.WF) :
    let d := ops.foldl Diagram.step Diagram.empty
    (∀ n ∈ d.nodes, ∀ i ∈ n.cov ++ n.con, n.nfree ≤ i ∧ i < n.rank) →
    (∀ n ∈ d.nodes, n.nfree ≤ n.rank) →
    ∀ k (hk : k < d.items.length),
      (∀ j, j < d.items[k].1.nfree →
        (d.spec.operands.getD k []).getD (d.items[k].1.nfree - 1 - j) 0 = d.spec.out.getD (d.spec.nFree - 1 - j) 0) ∧
      (∀ i, d.items[k].1.nfree ≤ i → i < d.items[k].1.rank →
        (d.spec.operands.getD k []).getD i 0 ∉ d.spec.out.take d.spec.nFree) := by
  intro d hwf hnf
  have h3 : d.Inv3 := T05_2_reachable_inv3 ops
  have h2 : d.Inv2 := by
    have : ∀ (ops : List DOp) (d0 : Diagram), (∀ o ∈ ops, match o with
        | .node n => n.WF
        | .edge s t => s.WF ∧ t.WF) → d0.Inv2 → (ops.foldl Diagram.step d0).Inv2 := by
      intro ops
      induction ops with
      | nil => intro d0 _ h; simpa
      | cons op ops ih =>
        intro d0 hw h
        simp only [List.foldl_cons]
        apply ih _ (fun o ho => hw o (List.mem_cons_of_mem _ ho))
        have hop := hw op List.mem_cons_self
        cases op with
        | node n => exact inv2_addNode d0 n hop h
        | edge s t => exact inv2_addEdge' d0 s t hop.1 hop.2 h
    exact this ops _ hnodes inv2_empty
  have hnd : (endsList (globalEnds d.positions d.contractions)).Nodup :=
    (List.nodup_append.mp h2.nodup).1
  exact T04_1_collections_positionwise d h3.base hnf hnd (ends_not_free d h3 hwf hnf)

/-- non-vacuity, computed on the traced diagram `join(PointCollection (2 axes), ε, PointCollection (1 axis))`:
    labels `[0,1,2] [2,4,5] [1,4]`, output `[0,1,5]`: the single collection axis of the third operand carries the LAST free label -/
example :
    let d : Diagram :=
      { nodes := [⟨1, [4, 5, 3], [2], []⟩, ⟨2, [3, 3, 3], [], [0, 1, 2]⟩, ⟨3, [5, 3], [1], []⟩],
        unused := [([], []), ([], [2]), ([], [])], positions := [0, 3, 6],
        contractions := [(0, 1, 2, 0), (2, 1, 1, 1)], indexCount := 8 }
    d.spec.operands = [[0, 1, 2], [2, 4, 5], [1, 4]] ∧ d.spec.out = [0, 1, 5] ∧ d.spec.nFree = 2 := by
  decide

/-- non-vacuity of `T04_1_reachable`: `join(PointCollection (5), PointCollection (2, 5))` as the library builds it — two edges into
    ε; the hypotheses hold and the einsum call is `[0,1] [1,3,4] [5,0,3] → [5,0,4]` (the call recorded from the running library) -/
example :
    let ops : List DOp := [DOp.edge ⟨1, [5, 3], [1], []⟩ ⟨9, [3, 3, 3], [], [0, 1, 2]⟩,
                           DOp.edge ⟨2, [2, 5, 3], [2], []⟩ ⟨9, [3, 3, 3], [], [0, 1, 2]⟩]
    let d := ops.foldl Diagram.step Diagram.empty
    (∀ n ∈ d.nodes, ∀ i ∈ n.cov ++ n.con, n.nfree ≤ i ∧ i < n.rank) ∧ (∀ n ∈ d.nodes, n.nfree ≤ n.rank) ∧
    d.spec.operands = [[0, 1], [1, 3, 4], [5, 0, 3]] ∧ d.spec.out = [5, 0, 4] ∧ d.spec.nFree = 2 := by
  decide

end Geo
