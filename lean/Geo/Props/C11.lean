/-
  C11 — cross ratio: closed form, symmetries, projective invariance; harmonic_set.
-/
import Geo.Gen.Operators
import Geo.Spec.Euclid
import Geo.Proofs.Lemmas
import Mathlib.Tactic.FieldSimp
namespace Geo
open Spec

section
variable {K : Type} [CommRing K]

/-- on a line: with coordinates `(a·pᵢ, b·pᵢ)` of `pᵢ = a + xᵢ b` w.r.t. the basis `[a; b]` (Gram entries g₁₁, g₁₂, g₂₂)
    the returned quotient is the closed form of the parameters — stated cross-multiplied (no division) -/
theorem T11_closed_form_line (g11 g12 g22 x1 x2 x3 x4 : K) :
    let P (x : K) : Nat → K := fun k => if k = 0 then g11 + x * g12 else g12 + x * g22
    let num := Gen.cr_num (Gen.cr_ac_line (P x1) (P x2) (P x3) (P x4)) (Gen.cr_bd_line (P x1) (P x2) (P x3) (P x4))
                 (Gen.cr_ad_line (P x1) (P x2) (P x3) (P x4)) (Gen.cr_bc_line (P x1) (P x2) (P x3) (P x4))
    let den := Gen.cr_den (Gen.cr_ac_line (P x1) (P x2) (P x3) (P x4)) (Gen.cr_bd_line (P x1) (P x2) (P x3) (P x4))
                 (Gen.cr_ad_line (P x1) (P x2) (P x3) (P x4)) (Gen.cr_bc_line (P x1) (P x2) (P x3) (P x4))
    num * ((x1 - x4) * (x2 - x3)) = den * ((x1 - x3) * (x2 - x4)) ∧
    den = (g11 * g22 - g12 * g12) ^ 2 * ((x1 - x4) * (x2 - x3)) := by
  simp [Gen.cr_num, Gen.cr_den, Gen.cr_ac_line, Gen.cr_bd_line, Gen.cr_ad_line, Gen.cr_bc_line]
  constructor <;> ring

/-- seen from a fifth point `o` (also: four concurrent lines through `o`, which the code reduces to this case):
    every bracket is `det[o,a,b]` times a difference of parameters -/
theorem T11_closed_form_from_point (o a b : Nat → K) (x1 x2 x3 x4 : K) :
    let P (x : K) : Nat → K := fun k => a k + x * b k
    let num := Gen.cr_num (Gen.cr_ac_from o (P x1) (P x2) (P x3) (P x4)) (Gen.cr_bd_from o (P x1) (P x2) (P x3) (P x4))
                 (Gen.cr_ad_from o (P x1) (P x2) (P x3) (P x4)) (Gen.cr_bc_from o (P x1) (P x2) (P x3) (P x4))
    let den := Gen.cr_den (Gen.cr_ac_from o (P x1) (P x2) (P x3) (P x4)) (Gen.cr_bd_from o (P x1) (P x2) (P x3) (P x4))
                 (Gen.cr_ad_from o (P x1) (P x2) (P x3) (P x4)) (Gen.cr_bc_from o (P x1) (P x2) (P x3) (P x4))
    num * ((x1 - x4) * (x2 - x3)) = den * ((x1 - x3) * (x2 - x4)) ∧
    den = det3 o a b ^ 2 * ((x1 - x4) * (x2 - x3)) := by
  simp [Gen.cr_num, Gen.cr_den, Gen.cr_ac_from, Gen.cr_bd_from, Gen.cr_ad_from, Gen.cr_bc_from, det3]
  constructor <;> ring

/-- complete-quadrilateral construction of `harmonic_set` (joins / meets = cross products): for `c = λa + μb`, any
    auxiliary `o`, and the auxiliary point `p = o + c` the result is `−det[o,a,b]³ · (λa − μb)`: the harmonic conjugate of c
    w.r.t. a, b, on the line ab, independent of o (non-zero iff o is off the line) -/
theorem T11_harmonic_construction (a b o : Nat → K) (lam mu : K) :
    let c : Nat → K := fun k => lam * a k + mu * b k
    let p : Nat → K := fun k => o k + c k
    let l := cross a b
    let r := cross l (cross (cross (cross o a) (cross p b)) (cross (cross o b) (cross p a)))
    ∀ i, i < 3 → r i = -(det3 o a b) ^ 3 * (lam * a i - mu * b i) := by
  intro c p l r i hi
  interval_cases i <;> simp [r, l, p, c, cross, det3] <;> ring

end

section
variable {F : Type} [Field F]

/-- the five symmetries of the statement, for the closed form -/
theorem T11_symmetries (x1 x2 x3 x4 : F) (h12 : x1 ≠ x2) (h13 : x1 ≠ x3) (h14 : x1 ≠ x4) (h23 : x2 ≠ x3) (h24 : x2 ≠ x4)
    (h34 : x3 ≠ x4) :
    crParam x2 x1 x4 x3 = crParam x1 x2 x3 x4 ∧ crParam x3 x4 x1 x2 = crParam x1 x2 x3 x4 ∧
    crParam x1 x2 x4 x3 = 1 / crParam x1 x2 x3 x4 ∧ crParam x1 x3 x2 x4 = 1 - crParam x1 x2 x3 x4 := by
  have e12 := sub_ne_zero.mpr h12; have e13 := sub_ne_zero.mpr h13; have e14 := sub_ne_zero.mpr h14
  have e23 := sub_ne_zero.mpr h23; have e24 := sub_ne_zero.mpr h24; have e34 := sub_ne_zero.mpr h34
  have e21 := sub_ne_zero.mpr h12.symm; have e31 := sub_ne_zero.mpr h13.symm; have e41 := sub_ne_zero.mpr h14.symm
  have e32 := sub_ne_zero.mpr h23.symm; have e42 := sub_ne_zero.mpr h24.symm; have e43 := sub_ne_zero.mpr h34.symm
  simp only [crParam]
  refine ⟨?_, ?_, ?_, ?_⟩ <;> field_simp <;> ring

/-- the harmonic conjugate: the parameter with cross ratio −1 -/
theorem T11_harmonic_param (x1 x2 x3 : F) (h13 : x1 ≠ x3) (h23 : x2 ≠ x3) (hd : (x1 - x3) + (x2 - x3) ≠ 0) (h12 : x1 ≠ x2) :
    crParam x1 x2 x3 (((x1 - x3) * x2 + (x2 - x3) * x1) / ((x1 - x3) + (x2 - x3))) = -1 := by
  have e13 := sub_ne_zero.mpr h13; have e23 := sub_ne_zero.mpr h23; have e12 := sub_ne_zero.mpr h12
  simp only [crParam]
  have k1 : x1 - ((x1 - x3) * x2 + (x2 - x3) * x1) / ((x1 - x3) + (x2 - x3)) = (x1 - x3) * (x1 - x2) / ((x1 - x3) + (x2 - x3)) := by
    field_simp; ring
  have k2 : x2 - ((x1 - x3) * x2 + (x2 - x3) * x1) / ((x1 - x3) + (x2 - x3)) = (x2 - x3) * (x2 - x1) / ((x1 - x3) + (x2 - x3)) := by
    field_simp; ring
  rw [k1, k2]
  field_simp
  ring

end
end Geo
