/-
  C19 (part b) — basic indexing (integers, slices, `None`, one Ellipsis) for index expressions of ANY length and tensors of ANY
  rank: the axis mapping of the (repaired) `Tensor._get_index_mapping` equals NumPy's, both being the simple axis walk over
  the expanded index.  (The finite tables of C19.lean cover advanced indexing up to 4 components.)
-/
import Geo.Indexing
import Mathlib.Tactic.Ring
namespace Geo


def Ix.isPlain : Ix → Bool | .int | .slice | .none => true | _ => false

def walk : List Ix → Nat → List (Option Nat)
  | [], _ => []
  | .slice :: t, s => some s :: walk t (s + 1)
  | .none :: t, s => none :: walk t s
  | _ :: t, s => walk t (s + 1)

theorem model_fold_plain (adv : Ix → Bool) (E : List Ix) (hE : ∀ c ∈ E, c.isPlain = true ∧ adv c = false) (st : MapState)
    (hs : st.seenAdvanced = false) :
    (E.foldl (mapStep adv) st).mapping = st.mapping ++ walk E st.axis ∧ (E.foldl (mapStep adv) st).seenAdvanced = false := by
  induction E generalizing st with
  | nil => simp [walk, hs]
  | cons c E ih =>
    have hc := hE c (List.mem_cons_self)
    have hE' : ∀ c ∈ E, c.isPlain = true ∧ adv c = false := fun x hx => hE x (List.mem_cons_of_mem _ hx)
    simp only [List.foldl_cons]
    cases c with
    | none =>
      obtain ⟨h1, h2⟩ := ih hE' (mapStep adv st Ix.none) (by simp [mapStep, hs])
      exact ⟨by rw [h1]; simp [mapStep, walk], h2⟩
    | slice =>
      have hadv : adv Ix.slice = false := hc.2
      obtain ⟨h1, h2⟩ := ih hE' (mapStep adv st Ix.slice) (by simp [mapStep, hs, hadv])
      exact ⟨by rw [h1]; simp [mapStep, walk, hadv], h2⟩
    | int =>
      have hadv : adv Ix.int = false := hc.2
      have hne : (Ix.int == Ix.slice) = false := by decide
      obtain ⟨h1, h2⟩ := ih hE' (mapStep adv st Ix.int) (by simp [mapStep, hs, hadv, hne])
      exact ⟨by rw [h1]; simp [mapStep, walk, hadv, hne], h2⟩
    | ellipsis => simp [Ix.isPlain] at hc
    | arr d b => simp [Ix.isPlain] at hc
    | mask k => simp [Ix.isPlain] at hc

theorem spec_fold_plain (adjacent : Bool) (bnd : Nat) (E : List Ix) (hE : ∀ c ∈ E, c.isPlain = true)
    (st : List (Option Nat) × Nat × Bool) :
    (E.foldl (npStep false adjacent bnd) st).1 = st.1 ++ walk E st.2.1 := by
  induction E generalizing st with
  | nil => simp [walk]
  | cons c E ih =>
    have hc := hE c (List.mem_cons_self)
    have hE' : ∀ c ∈ E, c.isPlain = true := fun x hx => hE x (List.mem_cons_of_mem _ hx)
    simp only [List.foldl_cons]
    rw [ih hE']
    cases c with
    | none => simp [npStep, walk]
    | slice => simp [npStep, walk]
    | int => simp [npStep, walk]
    | ellipsis => simp [Ix.isPlain] at hc
    | arr d b => simp [Ix.isPlain] at hc
    | mask k => simp [Ix.isPlain] at hc



/-- number of array axes a plain index consumes -/
def cnt (l : List Ix) : Nat := (l.filter fun i => !i.isNone).length

theorem foldl_add_eq (l : List Nat) (a : Nat) : l.foldl (· + ·) a = a + l.foldl (· + ·) 0 := by
  induction l generalizing a with
  | nil => simp
  | cons x xs ih => simp only [List.foldl_cons]; rw [ih (a + x), ih (0 + x)]; omega

theorem sliced_plain (l : List Ix) (h : ∀ c ∈ l, c.isPlain = true) :
    (l.map Ix.slicedDims).foldl (· + ·) 0 = cnt l ∧
    (l.map Ix.npConsumed).foldl (· + ·) 0 = cnt l := by
  induction l with
  | nil => simp [cnt]
  | cons c l ih =>
    have hc := h c (List.mem_cons_self)
    obtain ⟨i1, i2⟩ := ih (fun x hx => h x (List.mem_cons_of_mem _ hx))
    simp only [List.map_cons, List.foldl_cons]
    rw [foldl_add_eq, i1, foldl_add_eq (List.map _ l), i2]
    cases c <;> simp [Ix.isPlain] at hc <;> simp [cnt, Ix.slicedDims, Ix.npConsumed, Ix.isNone] <;> omega

theorem cnt_append (a b : List Ix) : cnt (a ++ b) = cnt a + cnt b := by simp [cnt]
theorem cnt_replicate_slice (n : Nat) : cnt (List.replicate n Ix.slice) = n := by
  simp [cnt, Ix.isNone, List.filter_replicate]

theorem plain_replicate (n : Nat) : ∀ c ∈ List.replicate n Ix.slice, c.isPlain = true := by
  intro c hc; rw [List.eq_of_mem_replicate hc]; rfl

theorem expandMasks_plain (l : List Ix) (h : ∀ c ∈ l, c.isPlain = true ∨ c = Ix.ellipsis) : expandMasks l = l := by
  induction l with
  | nil => rfl
  | cons c l ih =>
    have hc := h c (List.mem_cons_self)
    have := ih (fun x hx => h x (List.mem_cons_of_mem _ hx))
    simp only [expandMasks, List.flatMap_cons] at this ⊢
    rw [this]
    cases c <;> simp [Ix.isPlain] at hc <;> simp

theorem no_array_plain (l : List Ix) (h : ∀ c ∈ l, c.isPlain = true ∨ c = Ix.ellipsis) : l.any Ix.isArray = false := by
  rw [List.any_eq_false]
  intro c hc
  rcases h c hc with h1 | h1
  · cases c <;> simp [Ix.isPlain] at h1 <;> simp [Ix.isArray]
  · subst h1; simp [Ix.isArray]

theorem findIdx_plain (l : List Ix) (h : ∀ c ∈ l, c.isPlain = true) : l.findIdx? Ix.isEllipsis = none := by
  rw [List.findIdx?_eq_none_iff]
  intro c hc
  have := h c hc
  cases c <;> simp [Ix.isPlain] at this <;> simp [Ix.isEllipsis]

theorem filter_ellipsis_plain (l : List Ix) (h : ∀ c ∈ l, c.isPlain = true) : l.filter Ix.isEllipsis = [] := by
  rw [List.filter_eq_nil_iff]
  intro c hc
  have := h c hc
  cases c <;> simp [Ix.isPlain] at this <;> simp [Ix.isEllipsis]

/-- **T19 (basic indexing, no Ellipsis, any length, any rank)** -/
theorem T19_basic_plain (rank : Nat) (idx : List Ix) (h : ∀ c ∈ idx, c.isPlain = true) (hc : cnt idx ≤ rank) :
    indexMapping rank idx = some (walk (idx ++ List.replicate (rank - cnt idx) Ix.slice) 0) ∧
    numpyAxes rank idx = some (walk (idx ++ List.replicate (rank - cnt idx) Ix.slice) 0) := by
  have hbasic : ∀ c ∈ idx, c.isPlain = true ∨ c = Ix.ellipsis := fun c hc => Or.inl (h c hc)
  have hE : ∀ c ∈ idx ++ List.replicate (rank - cnt idx) Ix.slice, c.isPlain = true := by
    intro c hc
    rcases List.mem_append.mp hc with h1 | h1
    · exact h c h1
    · exact plain_replicate _ c h1
  constructor
  · -- the code
    unfold indexMapping
    simp only [expandMasks_plain idx hbasic, no_array_plain idx hbasic]
    have hnorm : normalizeIndex rank idx = some (idx ++ List.replicate (rank - cnt idx) Ix.slice) := by
      unfold normalizeIndex replaceEllipsis
      simp only [findIdx_plain idx h, (sliced_plain idx h).1]
      have : ((idx ++ List.replicate (rank - cnt idx) Ix.slice).filter fun i => !i.isNone).length = rank := by
        have := cnt_append idx (List.replicate (rank - cnt idx) Ix.slice)
        rw [cnt_replicate_slice] at this
        unfold cnt at this hc ⊢
        omega
      rw [if_neg (by rw [this]; exact Nat.lt_irrefl _)]
    simp only [hnorm]
    obtain ⟨h1, h2⟩ := model_fold_plain (fun c => c.isArray || (false && c == Ix.int)) _
      (fun c hc => ⟨hE c hc, by have := hE c hc; cases c <;> simp [Ix.isPlain] at this <;> simp [Ix.isArray]⟩)
      ⟨[], 0, 0, false⟩ rfl
    simp only [h2, Bool.not_false, if_true, h1, List.nil_append]
  · -- NumPy
    unfold numpyAxes
    have hexp : npExpand rank idx = some (idx ++ List.replicate (rank - cnt idx) Ix.slice) := by
      unfold npExpand
      simp only [(sliced_plain idx h).2, findIdx_plain idx h, filter_ellipsis_plain idx h]
      rw [if_neg (Nat.not_lt.mpr hc)]
      simp
    simp only [hexp]
    have hno : (idx ++ List.replicate (rank - cnt idx) Ix.slice).any Ix.isArray = false :=
      no_array_plain _ (fun c hc => Or.inl (hE c hc))
    simp only [hno, Bool.false_and, if_false]
    rw [spec_fold_plain _ _ _ hE]
    simp



theorem foldl_map_append (f : Ix → Nat) (a b : List Ix) :
    ((a ++ b).map f).foldl (· + ·) 0 = (a.map f).foldl (· + ·) 0 + (b.map f).foldl (· + ·) 0 := by
  rw [List.map_append, List.foldl_append, foldl_add_eq]

theorem findIdx_ellipsis (pre post : List Ix) (h : ∀ c ∈ pre, c.isPlain = true) :
    (pre ++ Ix.ellipsis :: post).findIdx? Ix.isEllipsis = some pre.length := by
  induction pre with
  | nil => simp [List.findIdx?_cons, Ix.isEllipsis]
  | cons c pre ih =>
    have hc := h c (List.mem_cons_self)
    have := ih (fun x hx => h x (List.mem_cons_of_mem _ hx))
    have hne : Ix.isEllipsis c = false := by cases c <;> simp [Ix.isPlain] at hc <;> rfl
    simp [List.findIdx?_cons, hne, this]

theorem cnt_eq (l : List Ix) : cnt l + (l.filter Ix.isNone).length = l.length := by
  induction l with
  | nil => simp [cnt]
  | cons c l ih =>
    unfold cnt at ih ⊢
    cases hn : c.isNone <;> simp [List.filter_cons, hn] <;> omega

theorem none_count_ellipsis (pre post : List Ix) :
    ((pre ++ Ix.ellipsis :: post).filter Ix.isNone).length = (pre.filter Ix.isNone).length + (post.filter Ix.isNone).length := by
  simp [List.filter_append, List.filter_cons, Ix.isNone]

/-- **T19 (basic indexing with an Ellipsis, any length, any rank)** -/
theorem T19_basic_ellipsis (rank : Nat) (pre post : List Ix) (hpre : ∀ c ∈ pre, c.isPlain = true)
    (hpost : ∀ c ∈ post, c.isPlain = true) (hc : cnt pre + cnt post ≤ rank) :
    indexMapping rank (pre ++ Ix.ellipsis :: post)
      = some (walk (pre ++ List.replicate (rank - (cnt pre + cnt post)) Ix.slice ++ post) 0) ∧
    numpyAxes rank (pre ++ Ix.ellipsis :: post)
      = some (walk (pre ++ List.replicate (rank - (cnt pre + cnt post)) Ix.slice ++ post) 0) := by
  have hbasic : ∀ c ∈ pre ++ Ix.ellipsis :: post, c.isPlain = true ∨ c = Ix.ellipsis := by
    intro c hc
    rcases List.mem_append.mp hc with h1 | h1
    · exact Or.inl (hpre c h1)
    · rcases List.mem_cons.mp h1 with h2 | h2
      · exact Or.inr h2
      · exact Or.inl (hpost c h2)
  have hE : ∀ c ∈ pre ++ List.replicate (rank - (cnt pre + cnt post)) Ix.slice ++ post, c.isPlain = true := by
    intro c hc
    rcases List.mem_append.mp hc with h1 | h1
    · rcases List.mem_append.mp h1 with h2 | h2
      · exact hpre c h2
      · exact plain_replicate _ c h2
    · exact hpost c h1
  have hcntE : cnt (pre ++ List.replicate (rank - (cnt pre + cnt post)) Ix.slice ++ post) = rank := by
    rw [cnt_append, cnt_append, cnt_replicate_slice]; omega
  have hlen : (pre ++ Ix.ellipsis :: post).length - ((pre ++ Ix.ellipsis :: post).filter Ix.isNone).length - 1
      = cnt pre + cnt post := by
    rw [none_count_ellipsis]
    have h1 := cnt_eq pre
    have h2 := cnt_eq post
    simp only [List.length_append, List.length_cons]
    omega
  have htake : (pre ++ Ix.ellipsis :: post).take pre.length = pre := by simp
  have hdrop : (pre ++ Ix.ellipsis :: post).drop (pre.length + 1) = post := by simp
  constructor
  · unfold indexMapping
    simp only [expandMasks_plain _ hbasic, no_array_plain _ hbasic]
    have hnorm : normalizeIndex rank (pre ++ Ix.ellipsis :: post)
        = some (pre ++ List.replicate (rank - (cnt pre + cnt post)) Ix.slice ++ post) := by
      unfold normalizeIndex replaceEllipsis
      simp only [findIdx_ellipsis pre post hpre, hlen, htake, hdrop]
      have hs : ((pre ++ List.replicate (rank - (cnt pre + cnt post)) Ix.slice ++ post).map Ix.slicedDims).foldl (· + ·) 0 = rank := by
        rw [(sliced_plain _ hE).1, hcntE]
      rw [hs]
      simp only [Nat.sub_self, List.replicate_zero, List.append_nil]
      have : ((pre ++ List.replicate (rank - (cnt pre + cnt post)) Ix.slice ++ post).filter fun i => !i.isNone).length = rank := hcntE
      rw [if_neg (by rw [this]; exact Nat.lt_irrefl _)]
    simp only [hnorm]
    obtain ⟨h1, h2⟩ := model_fold_plain (fun c => c.isArray || (false && c == Ix.int)) _
      (fun c hc => ⟨hE c hc, by have := hE c hc; cases c <;> simp [Ix.isPlain] at this <;> simp [Ix.isArray]⟩)
      ⟨[], 0, 0, false⟩ rfl
    simp only [h2, Bool.not_false, if_true, h1, List.nil_append]
  · unfold numpyAxes
    have hcons : ((pre ++ Ix.ellipsis :: post).map Ix.npConsumed).foldl (· + ·) 0 = cnt pre + cnt post := by
      rw [foldl_map_append, (sliced_plain pre hpre).2]
      have : ((Ix.ellipsis :: post).map Ix.npConsumed).foldl (· + ·) 0 = cnt post := by
        simp only [List.map_cons, List.foldl_cons, Ix.npConsumed]
        exact (sliced_plain post hpost).2
      rw [this]
    have hfil : ((pre ++ Ix.ellipsis :: post).filter Ix.isEllipsis).length = 1 := by
      simp [List.filter_append, List.filter_cons, filter_ellipsis_plain pre hpre, filter_ellipsis_plain post hpost, Ix.isEllipsis]
    have hexp : npExpand rank (pre ++ Ix.ellipsis :: post)
        = some (pre ++ List.replicate (rank - (cnt pre + cnt post)) Ix.slice ++ post) := by
      unfold npExpand
      simp only [hcons, hfil, findIdx_ellipsis pre post hpre, htake, hdrop]
      rw [if_neg (Nat.not_lt.mpr hc), if_neg (by omega)]
    simp only [hexp]
    have hno : (pre ++ List.replicate (rank - (cnt pre + cnt post)) Ix.slice ++ post).any Ix.isArray = false :=
      no_array_plain _ (fun c hc => Or.inl (hE c hc))
    simp only [hno, Bool.false_and, if_false]
    rw [spec_fold_plain _ _ _ hE]
    simp


/-- corollary: on every basic index expression that NumPy accepts (at most one Ellipsis, not more consumed axes than the rank)
    the code's mapping is NumPy's -/
theorem T19_basic_agree (rank : Nat) (pre post : List Ix) (hpre : ∀ c ∈ pre, c.isPlain = true)
    (hpost : ∀ c ∈ post, c.isPlain = true) :
    (cnt pre ≤ rank → indexMapping rank pre = numpyAxes rank pre) ∧
    (cnt pre + cnt post ≤ rank → indexMapping rank (pre ++ Ix.ellipsis :: post) = numpyAxes rank (pre ++ Ix.ellipsis :: post)) := by
  constructor
  · intro h; obtain ⟨a, b⟩ := T19_basic_plain rank pre hpre h; rw [a, b]
  · intro h; obtain ⟨a, b⟩ := T19_basic_ellipsis rank pre post hpre hpost h; rw [a, b]

/-- non-vacuity: `t[1, ..., None, :]` on a rank-4 tensor keeps axes 1, 2 (Ellipsis), a new axis, axis 3 -/
example : indexMapping 4 [.int, .ellipsis, .none, .slice] = some [some 1, some 2, none, some 3] := by decide
example : walk ([Ix.int] ++ List.replicate (4 - (1 + 1)) Ix.slice ++ [Ix.none, Ix.slice]) 0 = [some 1, some 2, none, some 3] := by decide

end Geo
