/-
  C01c — uniqueness of join / meet in space, on the einsum calls recorded from the running library.

  T01.8 (space): a plane `e` that is incident with the three points `p, q, r` is proportional to the plane the library computes
  (all 2×2 minors of the pair (e, result) vanish), hence — when the points are independent, i.e. the result is not the zero
  tensor — it IS that plane.  Dually for the point common to three planes.  Identity behind it:
  `e ∧ *(p∧q∧r) = *((e·p) q∧r − (e·q) p∧r + (e·r) p∧q)`.
-/
import Geo.Gen.Diagrams
import Geo.Traced
import Geo.Spec.Basic
import Geo.Proofs.Lemmas
import Mathlib.Tactic.Ring
import Mathlib.Tactic.LinearCombination
import Mathlib.Tactic.IntervalCases
import Mathlib.Tactic.FieldSimp
namespace Geo
open Spec

variable {K : Type} [CommRing K]

/-- the six 2×2 minors of a pair of 4-vectors -/
def minors4Zero (e n : Nat → K) : Prop :=
  e 0 * n 1 = e 1 * n 0 ∧ e 0 * n 2 = e 2 * n 0 ∧ e 0 * n 3 = e 3 * n 0 ∧
  e 1 * n 2 = e 2 * n 1 ∧ e 1 * n 3 = e 3 * n 1 ∧ e 2 * n 3 = e 3 * n 2

set_option maxHeartbeats 1600000 in
/-- **T01.8 (join of three points is unique)**: every plane through `p, q, r` is proportional to the computed plane -/
theorem T01_8_unique_plane (p q r e : Nat → K) (hp : dot 4 e p = 0) (hq : dot 4 e q = 0) (hr : dot 4 e r = 0) :
    match Gen.join_P3P3P3 with
    | none => True
    | some cs => minors4Zero e (fun i => lastResult cs [vec p, vec q, vec r] [] [i]) := by
  simp [dot, sumRange] at hp hq hr
  traced_simp [Gen.join_P3P3P3, minors4Zero]
  refine ⟨?_, ?_, ?_, ?_, ?_, ?_⟩
  · first
    | linear_combination (q 2 * r 3 - q 3 * r 2) * hp - (p 2 * r 3 - p 3 * r 2) * hq + (p 2 * q 3 - p 3 * q 2) * hr
    | linear_combination -(q 2 * r 3 - q 3 * r 2) * hp + (p 2 * r 3 - p 3 * r 2) * hq - (p 2 * q 3 - p 3 * q 2) * hr
  · first
    | linear_combination (q 1 * r 3 - q 3 * r 1) * hp - (p 1 * r 3 - p 3 * r 1) * hq + (p 1 * q 3 - p 3 * q 1) * hr
    | linear_combination -(q 1 * r 3 - q 3 * r 1) * hp + (p 1 * r 3 - p 3 * r 1) * hq - (p 1 * q 3 - p 3 * q 1) * hr
  · first
    | linear_combination (q 1 * r 2 - q 2 * r 1) * hp - (p 1 * r 2 - p 2 * r 1) * hq + (p 1 * q 2 - p 2 * q 1) * hr
    | linear_combination -(q 1 * r 2 - q 2 * r 1) * hp + (p 1 * r 2 - p 2 * r 1) * hq - (p 1 * q 2 - p 2 * q 1) * hr
  · first
    | linear_combination (q 0 * r 3 - q 3 * r 0) * hp - (p 0 * r 3 - p 3 * r 0) * hq + (p 0 * q 3 - p 3 * q 0) * hr
    | linear_combination -(q 0 * r 3 - q 3 * r 0) * hp + (p 0 * r 3 - p 3 * r 0) * hq - (p 0 * q 3 - p 3 * q 0) * hr
  · first
    | linear_combination (q 0 * r 2 - q 2 * r 0) * hp - (p 0 * r 2 - p 2 * r 0) * hq + (p 0 * q 2 - p 2 * q 0) * hr
    | linear_combination -(q 0 * r 2 - q 2 * r 0) * hp + (p 0 * r 2 - p 2 * r 0) * hq - (p 0 * q 2 - p 2 * q 0) * hr
  · first
    | linear_combination (q 0 * r 1 - q 1 * r 0) * hp - (p 0 * r 1 - p 1 * r 0) * hq + (p 0 * q 1 - p 1 * q 0) * hr
    | linear_combination -(q 0 * r 1 - q 1 * r 0) * hp + (p 0 * r 1 - p 1 * r 0) * hq - (p 0 * q 1 - p 1 * q 0) * hr

set_option maxHeartbeats 1600000 in
/-- **T01.8 (meet of three planes is unique)**: every point on the planes `a, b, c` is proportional to the computed point -/
theorem T01_8_unique_point (a b c x : Nat → K) (ha : dot 4 a x = 0) (hb : dot 4 b x = 0) (hc : dot 4 c x = 0) :
    match Gen.meet_EEE with
    | none => True
    | some cs => minors4Zero x (fun i => lastResult cs [vec a, vec b, vec c] [] [i]) := by
  simp [dot, sumRange] at ha hb hc
  traced_simp [Gen.meet_EEE, minors4Zero]
  refine ⟨?_, ?_, ?_, ?_, ?_, ?_⟩
  · first
    | linear_combination (b 2 * c 3 - b 3 * c 2) * ha - (a 2 * c 3 - a 3 * c 2) * hb + (a 2 * b 3 - a 3 * b 2) * hc
    | linear_combination -(b 2 * c 3 - b 3 * c 2) * ha + (a 2 * c 3 - a 3 * c 2) * hb - (a 2 * b 3 - a 3 * b 2) * hc
  · first
    | linear_combination (b 1 * c 3 - b 3 * c 1) * ha - (a 1 * c 3 - a 3 * c 1) * hb + (a 1 * b 3 - a 3 * b 1) * hc
    | linear_combination -(b 1 * c 3 - b 3 * c 1) * ha + (a 1 * c 3 - a 3 * c 1) * hb - (a 1 * b 3 - a 3 * b 1) * hc
  · first
    | linear_combination (b 1 * c 2 - b 2 * c 1) * ha - (a 1 * c 2 - a 2 * c 1) * hb + (a 1 * b 2 - a 2 * b 1) * hc
    | linear_combination -(b 1 * c 2 - b 2 * c 1) * ha + (a 1 * c 2 - a 2 * c 1) * hb - (a 1 * b 2 - a 2 * b 1) * hc
  · first
    | linear_combination (b 0 * c 3 - b 3 * c 0) * ha - (a 0 * c 3 - a 3 * c 0) * hb + (a 0 * b 3 - a 3 * b 0) * hc
    | linear_combination -(b 0 * c 3 - b 3 * c 0) * ha + (a 0 * c 3 - a 3 * c 0) * hb - (a 0 * b 3 - a 3 * b 0) * hc
  · first
    | linear_combination (b 0 * c 2 - b 2 * c 0) * ha - (a 0 * c 2 - a 2 * c 0) * hb + (a 0 * b 2 - a 2 * b 0) * hc
    | linear_combination -(b 0 * c 2 - b 2 * c 0) * ha + (a 0 * c 2 - a 2 * c 0) * hb - (a 0 * b 2 - a 2 * b 0) * hc
  · first
    | linear_combination (b 0 * c 1 - b 1 * c 0) * ha - (a 0 * c 1 - a 1 * c 0) * hb + (a 0 * b 1 - a 1 * b 0) * hc
    | linear_combination -(b 0 * c 1 - b 1 * c 0) * ha + (a 0 * c 1 - a 1 * c 0) * hb - (a 0 * b 1 - a 1 * b 0) * hc

/-- vanishing minors + a non-zero second vector = proportional: `e = (e_j / n_j) · n` (over a field) -/
theorem minors4Zero_prop {F : Type} [Field F] (e n : Nat → F) (h : minors4Zero e n) (j : Nat) (hj : j < 4) (hn : n j ≠ 0) :
    ∀ i, i < 4 → e i = (e j / n j) * n i := by
  obtain ⟨h01, h02, h03, h12, h13, h23⟩ := h
  intro i hi
  interval_cases j <;> interval_cases i <;> field_simp <;>
    first
    | ring1
    | linear_combination h01 | linear_combination -h01
    | linear_combination h02 | linear_combination -h02
    | linear_combination h03 | linear_combination -h03
    | linear_combination h12 | linear_combination -h12
    | linear_combination h13 | linear_combination -h13
    | linear_combination h23 | linear_combination -h23

/-- **T01.8 (space), projective form**: for independent points (the computed plane has a non-zero entry) every non-zero plane
    through them equals the computed plane up to a non-zero scalar -/
theorem T01_8_span_is_unique {F : Type} [Field F] (p q r e : Nat → F)
    (hp : dot 4 e p = 0) (hq : dot 4 e q = 0) (hr : dot 4 e r = 0) :
    match Gen.join_P3P3P3 with
    | none => True
    | some cs =>
      let n := fun i => lastResult cs [vec p, vec q, vec r] [] [i]
      ∀ j, j < 4 → n j ≠ 0 → ∀ i, i < 4 → e i = (e j / n j) * n i := by
  have h := T01_8_unique_plane p q r e hp hq hr
  revert h
  cases hg : Gen.join_P3P3P3 with
  | none => intro _; trivial
  | some cs =>
    intro h j hj hn i hi
    exact minors4Zero_prop e _ h j hj hn i hi

/-- non-vacuity: the plane z = 0 through (0,0,0), (1,0,0), (0,1,0) -/
example : dot 4 (fun k => if k = 2 then (1 : ℤ) else 0) (fun k => if k = 3 then 1 else 0) = 0 := by
  simp [dot, sumRange]

end Geo
