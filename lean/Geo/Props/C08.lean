/-
  C08 — transformation constructors realise their Euclidean / projective definition.
  The constructor models (Geo.Transform) are compared with the implementation on every run; here: the models
  meet the definitions.  Trigonometric values enter as numbers c, s with c² + s² = 1.
-/
import Geo.Transform
import Geo.Proofs.Lemmas
import Mathlib.Tactic.FieldSimp
import Mathlib.LinearAlgebra.Matrix.NonsingularInverse
import Mathlib.Analysis.SpecialFunctions.Trigonometric.Basic
namespace Geo

section
variable {K : Type} [Field K]

/-- entry (i,j) of a model matrix -/
abbrev ent (m : Mat K) (i j : Nat) : K := m.get i j

/-! ## translation, scaling -/

theorem T08_translation_2d (a b x y w : K) :
    (translationM [a, b]).mulVec [x, y, w] = [x + a * w, y + b * w, w] := by
  simp [translationM, affineTransform, Mat.mulVec, Mat.ofFn, Mat.get, Mat.identity, sumRange, List.range_succ]
    <;> (try constructor) <;> (try constructor) <;> (try constructor) <;> (try ring)

/-- `translation(v)` maps `(p, 1)` to `(p + v, 1)` and fixes every point at infinity `(d, 0)` -/
theorem T08_translation_3d (a b c x y z w : K) :
    (translationM [a, b, c]).mulVec [x, y, z, w] = [x + a * w, y + b * w, z + c * w, w] := by
  simp [translationM, affineTransform, Mat.mulVec, Mat.ofFn, Mat.get, Mat.identity, sumRange, List.range_succ]
    <;> (try constructor) <;> (try constructor) <;> (try constructor) <;> (try ring)

theorem T08_scaling_3d (a b c x y z w : K) :
    (scalingM [a, b, c]).mulVec [x, y, z, w] = [a * x, b * y, c * z, w] := by
  simp [scalingM, affineTransform, Mat.mulVec, Mat.ofFn, Mat.get, sumRange, List.range_succ]

theorem T08_scaling_2d (a b x y w : K) :
    (scalingM [a, b]).mulVec [x, y, w] = [a * x, b * y, w] := by
  simp [scalingM, affineTransform, Mat.mulVec, Mat.ofFn, Mat.get, sumRange, List.range_succ]

/-! ## rotation in the plane -/

/-- `rotation(a)` maps `(x, y, 1)` to `(c x − s y, s x + c y, 1)`: counter-clockwise by the angle with
    `cos = c`, `sin = s`; in particular `(1,0) ↦ (c,s)` -/
theorem T08_rot2_action (c s x y w : K) :
    (rotation2M c s).mulVec [x, y, w] = [c * x - s * y, s * x + c * y, w] := by
  simp [rotation2M, affineTransform, Mat.mulVec, Mat.ofFn, Mat.get, sumRange, List.range_succ]
    <;> (try constructor) <;> (try constructor) <;> (try constructor) <;> (try ring)

/-- composition adds the angles (addition theorems of cos / sin) -/
theorem T08_rot2_compose (c1 s1 c2 s2 : K) :
    Mat.mul (rotation2M c1 s1) (rotation2M c2 s2) = rotation2M (c1 * c2 - s1 * s2) (s1 * c2 + c1 * s2) := by
  simp [rotation2M, affineTransform, Mat.mul, Mat.ofFn, Mat.get, sumRange, List.range_succ]
    <;> (try constructor) <;> (try constructor) <;> (try constructor) <;> (try ring)

end

/-- over ℝ: `rotation(a) * rotation(b) = rotation(a + b)` -/
theorem T08_rot2_additive (a b : ℝ) :
    Mat.mul (rotation2M (Real.cos a) (Real.sin a)) (rotation2M (Real.cos b) (Real.sin b))
      = rotation2M (Real.cos (a + b)) (Real.sin (a + b)) := by
  rw [T08_rot2_compose, Real.cos_add, Real.sin_add]

section
variable {K : Type} [Field K]

/-! ## rotation about an axis (the code's Rodrigues expression with `u^{jk} = ε^{ijk} a_i`) -/

/-- linear part of `rotation(angle, axis)` -/
def rot3 (c s : K) (a : Nat → K) (j k : Nat) : K := (rotation3M c s [a 0, a 1, a 2]).get j k

theorem rot3_entries (c s : K) (a : Nat → K) :
    rot3 c s a 0 0 = c + (1 - c) * (a 0 * a 0) ∧ rot3 c s a 0 1 = s * a 2 + (1 - c) * (a 0 * a 1) ∧
    rot3 c s a 0 2 = -(s * a 1) + (1 - c) * (a 0 * a 2) ∧ rot3 c s a 1 0 = -(s * a 2) + (1 - c) * (a 1 * a 0) ∧
    rot3 c s a 1 1 = c + (1 - c) * (a 1 * a 1) ∧ rot3 c s a 1 2 = s * a 0 + (1 - c) * (a 1 * a 2) ∧
    rot3 c s a 2 0 = s * a 1 + (1 - c) * (a 2 * a 0) ∧ rot3 c s a 2 1 = -(s * a 0) + (1 - c) * (a 2 * a 1) ∧
    rot3 c s a 2 2 = c + (1 - c) * (a 2 * a 2) := by
  simp [rot3, rotation3M, affineTransform, Mat.ofFn, Mat.get, sumRange, List.range_succ, epsEntry, isPermOfRange,
    pairProd, sgnInt]

/-- orthogonal: `RᵀR = 1`, given `c² + s² = 1` and a unit axis -/
theorem T08_rot3_orthogonal (c s : K) (a : Nat → K) (h1 : c ^ 2 + s ^ 2 = 1) (h2 : a 0 ^ 2 + a 1 ^ 2 + a 2 ^ 2 = 1) :
    ∀ i j, i < 3 → j < 3 → (sumRange 3 fun k => rot3 c s a k i * rot3 c s a k j) = if i = j then 1 else 0 := by
  obtain ⟨e00, e01, e02, e10, e11, e12, e20, e21, e22⟩ := rot3_entries c s a
  intro i j hi hj
  interval_cases i <;> interval_cases j <;> simp [sumRange, e00, e01, e02, e10, e11, e12, e20, e21, e22]
  · linear_combination (a 0^4 + a 0^2*a 1^2 + a 0^2*a 2^2 - 2*a 0^2 + 1) * h1 + (-2*a 0^2*c - a 0^2*s^2 + 2*a 0^2 + s^2) * h2
  · linear_combination (a 0*a 1*(a 0^2 + a 1^2 + a 2^2 - 2)) * h1 + (-a 0*a 1*(2*c + s^2 - 2)) * h2
  · linear_combination (a 0*a 2*(a 0^2 + a 1^2 + a 2^2 - 2)) * h1 + (-a 0*a 2*(2*c + s^2 - 2)) * h2
  · linear_combination (a 0*a 1*(a 0^2 + a 1^2 + a 2^2 - 2)) * h1 + (-a 0*a 1*(2*c + s^2 - 2)) * h2
  · linear_combination (a 0^2*a 1^2 + a 1^4 + a 1^2*a 2^2 - 2*a 1^2 + 1) * h1 + (-2*a 1^2*c - a 1^2*s^2 + 2*a 1^2 + s^2) * h2
  · linear_combination (a 1*a 2*(a 0^2 + a 1^2 + a 2^2 - 2)) * h1 + (-a 1*a 2*(2*c + s^2 - 2)) * h2
  · linear_combination (a 0*a 2*(a 0^2 + a 1^2 + a 2^2 - 2)) * h1 + (-a 0*a 2*(2*c + s^2 - 2)) * h2
  · linear_combination (a 1*a 2*(a 0^2 + a 1^2 + a 2^2 - 2)) * h1 + (-a 1*a 2*(2*c + s^2 - 2)) * h2
  · linear_combination (a 0^2*a 2^2 + a 1^2*a 2^2 + a 2^4 - 2*a 2^2 + 1) * h1 + (-2*a 2^2*c - a 2^2*s^2 + 2*a 2^2 + s^2) * h2

/-- determinant 1 -/
theorem T08_rot3_det (c s : K) (a : Nat → K) (h1 : c ^ 2 + s ^ 2 = 1) (h2 : a 0 ^ 2 + a 1 ^ 2 + a 2 ^ 2 = 1) :
    Spec.det3 (rot3 c s a 0) (rot3 c s a 1) (rot3 c s a 2) = 1 := by
  obtain ⟨e00, e01, e02, e10, e11, e12, e20, e21, e22⟩ := rot3_entries c s a
  simp only [Spec.det3, e00, e01, e02, e10, e11, e12, e20, e21, e22]
  linear_combination (-a 0^2*c + a 0^2 - a 1^2*c + a 1^2 - a 2^2*c + a 2^2 + c) * h1 +
    (-a 0^2*c*s^2 + a 0^2*s^2 - a 1^2*c*s^2 + a 1^2*s^2 - a 2^2*c*s^2 + a 2^2*s^2 + c*s^2 - c + 1) * h2

/-- the axis is fixed and the trace is `1 + 2c` (the turn is by the angle with cosine c) -/
theorem T08_rot3_axis_trace (c s : K) (a : Nat → K) (h2 : a 0 ^ 2 + a 1 ^ 2 + a 2 ^ 2 = 1) :
    (∀ i, i < 3 → (sumRange 3 fun k => rot3 c s a i k * a k) = a i) ∧
    rot3 c s a 0 0 + rot3 c s a 1 1 + rot3 c s a 2 2 = 1 + 2 * c := by
  obtain ⟨e00, e01, e02, e10, e11, e12, e20, e21, e22⟩ := rot3_entries c s a
  refine ⟨?_, ?_⟩
  · intro i hi
    interval_cases i <;> simp [sumRange, e00, e01, e02, e10, e11, e12, e20, e21, e22]
    · linear_combination (-a 0*(c - 1)) * h2
    · linear_combination (-a 1*(c - 1)) * h2
    · linear_combination (-a 2*(c - 1)) * h2
  · rw [e00, e11, e22]
    linear_combination (1 - c) * h2

/-! ## reflection -/

/-- `reflection(h)` for the mirror `{p : v·(p − x) = 0}` is the classical mirror image
    `p ↦ p − 2 (v·(p−x))/|v|² · v` (2-D); hence an involution that fixes the mirror pointwise -/
theorem T08_reflection_2d (v0 v1 x0 x1 p0 p1 : K) (hv : v0 * v0 + v1 * v1 ≠ 0) :
    (reflectionM [v0, v1] [x0, x1]).mulVec [p0, p1, 1]
      = [p0 - 2 * (v0 * (p0 - x0) + v1 * (p1 - x1)) / (v0 * v0 + v1 * v1) * v0,
         p1 - 2 * (v0 * (p0 - x0) + v1 * (p1 - x1)) / (v0 * v0 + v1 * v1) * v1, 1] := by
  simp [reflectionM, translationM, householderM, affineTransform, Mat.mul, Mat.mulVec, Mat.ofFn, Mat.get,
    Mat.identity, sumRange, List.range_succ]
  refine ⟨?_, ?_⟩ <;> field_simp <;> ring

theorem T08_reflection_3d (v0 v1 v2 x0 x1 x2 p0 p1 p2 : K) (hv : v0 * v0 + v1 * v1 + v2 * v2 ≠ 0) :
    (reflectionM [v0, v1, v2] [x0, x1, x2]).mulVec [p0, p1, p2, 1]
      = [p0 - 2 * (v0 * (p0 - x0) + v1 * (p1 - x1) + v2 * (p2 - x2)) / (v0 * v0 + v1 * v1 + v2 * v2) * v0,
         p1 - 2 * (v0 * (p0 - x0) + v1 * (p1 - x1) + v2 * (p2 - x2)) / (v0 * v0 + v1 * v1 + v2 * v2) * v1,
         p2 - 2 * (v0 * (p0 - x0) + v1 * (p1 - x1) + v2 * (p2 - x2)) / (v0 * v0 + v1 * v1 + v2 * v2) * v2, 1] := by
  simp [reflectionM, translationM, householderM, affineTransform, Mat.mul, Mat.mulVec, Mat.ofFn, Mat.get,
    Mat.identity, sumRange, List.range_succ]
  refine ⟨?_, ?_, ?_⟩ <;> field_simp <;> ring

end

/-! ## from_points (every dimension) -/
section
open Matrix
variable {n : Type} [Fintype n] [DecidableEq n] {F : Type} [Field F]

/-- `t = M₂D₂(M₁D₁)⁻¹` satisfies `t·(M₁D₁) = M₂D₂`: the k-th source point `M₁e_k` goes to `(d₂ₖ/d₁ₖ)·M₂e_k`, a non-zero
    multiple of the k-th target point, and the last source point `M₁d₁` goes to the last target point `M₂d₂` -/
theorem T08_from_points (M1 M2 : Matrix n n F) (d1 d2 : n → F) (h : IsUnit (M1 * diagonal d1).det) :
    (M2 * diagonal d2 * (M1 * diagonal d1)⁻¹) * (M1 * diagonal d1) = M2 * diagonal d2 ∧
    (M2 * diagonal d2 * (M1 * diagonal d1)⁻¹).mulVec (M1.mulVec d1) = M2.mulVec d2 := by
  have key : (M2 * diagonal d2 * (M1 * diagonal d1)⁻¹) * (M1 * diagonal d1) = M2 * diagonal d2 := by
    rw [Matrix.mul_assoc, Matrix.nonsing_inv_mul _ h, Matrix.mul_one]
  refine ⟨key, ?_⟩
  have e1 : M1.mulVec d1 = (M1 * diagonal d1).mulVec (fun _ => 1) := by
    rw [← Matrix.mulVec_mulVec]; congr 1; ext i; simp [Matrix.mulVec_diagonal]
  have e2 : M2.mulVec d2 = (M2 * diagonal d2).mulVec (fun _ => 1) := by
    rw [← Matrix.mulVec_mulVec]; congr 1; ext i; simp [Matrix.mulVec_diagonal]
  rw [e1, Matrix.mulVec_mulVec, key, e2]

end
end Geo
