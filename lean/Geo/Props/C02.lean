/-
  C02 — degenerate join/meet inputs raise the documented error, never a wrong answer.
  The error is raised iff the ε-contraction result is the zero tensor (`check_dependence`, modelled in
  Geo.JoinMeet.joinMeet); here: the traced contraction vanishes on linearly dependent arguments (no silent wrong
  answer) and its entries are the maximal minors of the arguments (general position never raises);
  two 3-D lines: the coplanarity scalar is ± det[a,b,c,d]; the Blinn tensor of two lines through a common
  point is rank one (C01's T01.7), and zero for equal lines.
-/
import Geo.Gen.Diagrams
import Geo.Proofs.Lemmas
import Geo.JoinMeet
import Mathlib.Tactic.FieldSimp
namespace Geo
open Spec

variable {K : Type} [CommRing K]

/-! ## T02.1  dependent arguments give the zero tensor -/

theorem T02_1_join_P2P2_dep (p : Nat → K) (c : K) :
    match Gen.join_P2P2 with
    | none => True
    | some cs => ∀ i, i < 3 → lastResult cs [vec p, vec fun j => c * p j] [] [i] = 0 := by
  simp only [Gen.join_P2P2]
  intro i hi; interval_cases i <;> traced_simp [] <;> ring

theorem T02_1_meet_L2L2_dep (l : Nat → K) (c : K) :
    match Gen.meet_L2L2 with
    | none => True
    | some cs => ∀ i, i < 3 → lastResult cs [vec l, vec fun j => c * l j] [] [i] = 0 := by
  simp only [Gen.meet_L2L2]
  intro i hi; interval_cases i <;> traced_simp [] <;> ring

theorem T02_1_join_P3P3_dep (p : Nat → K) (c : K) :
    match Gen.join_P3P3 with
    | none => True
    | some cs => ∀ k l, k < 4 → l < 4 → lastResult cs [vec p, vec fun j => c * p j] [] [k, l] = 0 := by
  simp only [Gen.join_P3P3]
  intro k l hk hl; interval_cases k <;> interval_cases l <;> traced_simp [] <;> ring

/-- third point in the span of the first two (any position of the dependent argument follows by T01.3's antisymmetry) -/
theorem T02_1_join_P3P3P3_dep (p q : Nat → K) (a b : K) :
    match Gen.join_P3P3P3 with
    | none => True
    | some cs => ∀ i, i < 4 → lastResult cs [vec p, vec q, vec fun j => a * p j + b * q j] [] [i] = 0 := by
  simp only [Gen.join_P3P3P3]
  intro i hi; interval_cases i <;> traced_simp [] <;> ring

theorem T02_1_meet_EEE_dep (p q : Nat → K) (a b : K) :
    match Gen.meet_EEE with
    | none => True
    | some cs => ∀ i, i < 4 → lastResult cs [vec p, vec q, vec fun j => a * p j + b * q j] [] [i] = 0 := by
  simp only [Gen.meet_EEE]
  intro i hi; interval_cases i <;> traced_simp [] <;> ring

set_option maxHeartbeats 2000000 in
theorem T02_1_meet_EE_dep (p : Nat → K) (c : K) :
    match Gen.meet_EE with
    | none => True
    | some cs => ∀ k l, k < 4 → l < 4 → lastResult cs [vec p, vec fun j => c * p j] [] [k, l] = 0 := by
  simp only [Gen.meet_EE]
  intro k l hk hl; interval_cases k <;> interval_cases l <;> traced_simp [] <;> ring

/-- point on the line: `join(L, a p + b q) = 0` for `L = s • plucker p q` (both argument orders) -/
theorem T02_1_join_L3P3_dep (p q : Nat → K) (a b s : K) (L : List Nat → K)
    (hL : ∀ k l, k < 4 → l < 4 → L [k, l] = s * plucker p q k l) :
    match Gen.join_L3P3, Gen.join_P3L3 with
    | some clp, some cpl => ∀ i, i < 4 →
        lastResult clp [L, vec fun j => a * p j + b * q j] [] [i] = 0 ∧
        lastResult cpl [vec fun j => a * p j + b * q j, L] [] [i] = 0
    | _, _ => True := by
  simp only [Gen.join_L3P3, Gen.join_P3L3]
  intro i hi; interval_cases i <;> traced_simp [hL, plucker] <;> (try constructor) <;> ring

/-! ## T02.2  general position never raises: the entries are the maximal minors -/

/-- plane: the entries of `join(p,q)` are, up to one sign, the 2×2 minors `p_i q_j − p_j q_i` — so the result is
    zero only if all minors vanish, i.e. only if p and q are linearly dependent (next theorem) -/
theorem T02_2_join_P2P2_minors (p q : Nat → K) :
    match Gen.join_P2P2 with
    | none => True
    | some cs => (∀ i, i < 3 → lastResult cs [vec p, vec q] [] [i] = cross p q i) ∨
                 (∀ i, i < 3 → lastResult cs [vec p, vec q] [] [i] = - cross p q i) := by
  simp only [Gen.join_P2P2]
  first
  | (left; intro i hi; interval_cases i <;> traced_simp [cross] <;> ring1)
  | (right; intro i hi; interval_cases i <;> traced_simp [cross] <;> ring1)

/-- vanishing 2×2 minors ⇒ proportional (over a field): if `p i₀ ≠ 0` and all minors vanish then `q = (q i₀/p i₀)·p` -/
theorem T02_2_minors_zero_dependent {F : Type} [Field F] (n : Nat) (p q : Nat → F) (i0 : Nat) (h0 : p i0 ≠ 0)
    (hm : ∀ i j, i < n → j < n → p i * q j - p j * q i = 0) (hi0 : i0 < n) :
    ∀ j, j < n → q j = (q i0 / p i0) * p j := by
  intro j hj
  have := hm i0 j hi0 hj
  field_simp
  linear_combination this

/-! ## T02.3  two lines of space: the coplanarity test -/

set_option maxHeartbeats 3000000 in
/-- for `L = s₁·plucker a b`, `M = s₂·plucker c d` the scalar `ε_{ijkl} L^{ij} M^{kl}` is `±4 s₁ s₂ det[a,b,c,d]`:
    `NotCoplanar` is raised exactly when the four points are not coplanar, i.e. the lines are skew -/
theorem T02_3_coplanarity_scalar (a b c d : Nat → K) (s1 s2 : K) (L M : List Nat → K)
    (hL : ∀ k l, k < 4 → l < 4 → L [k, l] = s1 * plucker a b k l)
    (hM : ∀ k l, k < 4 → l < 4 → M [k, l] = s2 * plucker c d k l) :
    match Gen.is_coplanar with
    | none => True
    | some cs => lastResult cs [L, M] [] [] = 4 * s1 * s2 * det4 a b c d ∨
                 lastResult cs [L, M] [] [] = -4 * s1 * s2 * det4 a b c d := by
  simp only [Gen.is_coplanar]
  first
  | (left; traced_simp [hL, hM, plucker, det4, det3]; ring1)
  | (right; traced_simp [hL, hM, plucker, det4, det3]; ring1)

/-! ## T02.5  the dispatcher model: the error is raised iff some position of the contraction is the zero tensor,
    and the mask handed to the exception is exactly the per-position zero test -/

section
variable {α : Type} [Add α] [Mul α] [Zero α] [One α] [Neg α] [DecidableEq α]

private theorem map_error {ε β γ : Type} {f : β → γ} {x : Except ε β} {e : ε} :
    Except.map f x = .error e → x = .error e := by
  cases x <;> simp [Except.map]

private theorem runDiagram_error (objs : List (GObj α)) (n : Nat) (es : List (Node × Node)) (e : JMErr)
    (h : runDiagram objs n es = .error e) : e = .tensorComputation := by
  unfold runDiagram at h
  split at h
  · simp at h; exact h.symm
  · simp at h

private theorem contravariant_error (l : GObj α) (e : JMErr) (h : contravariantTensor l = .error e) :
    e = .tensorComputation := by
  unfold contravariantTensor at h
  split_ifs at h
  exact runDiagram_error _ _ _ _ (map_error h)

theorem T02_5_error_iff_zero (absLe : α → α → Bool) (args : List (GObj α)) (il : Bool) (r : RawResult α)
    (h : joinMeetRaw absLe args il = .ok r) :
    (∃ sh m, joinMeet absLe args il = .error (.linearDependence sh m)) ↔
      (isZeroMask r.t r.nfree).2.any id = true := by
  unfold joinMeet
  rw [h]
  simp only
  by_cases hz : (isZeroMask r.t r.nfree).2.any id = true
  · simp [hz]
  · simp only [hz, Bool.false_eq_true, if_false, iff_false]
    rintro ⟨sh, m, hm⟩
    split_ifs at hm
    · have := contravariant_error _ _ hm
      simp at this
    · simp at hm

/-- the mask is the zero test of each collection position separately -/
theorem T02_5_mask_positions (t : Tens α) (nfree : Nat) :
    (isZeroMask t nfree).2 = (Tens.allIndices (t.shape.take nfree)).map fun pos => (t.slice pos).isZero := rfl

end

end Geo
