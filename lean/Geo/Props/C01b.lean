/-
  C01 (continued) — two coplanar lines of space (the branch "inspired by Jim Blinn"), round trips.
-/
import Geo.Gen.Diagrams
import Geo.Proofs.Lemmas
namespace Geo
open Spec

variable {K : Type} [CommRing K]

set_option maxHeartbeats 8000000 in
/-- **T01.7** for two lines through a common point, `L = s₁·plucker p q`, `M = s₂·plucker p r`, the tensor
    `ε_{ijkl} L^{ij} M^{km}` from which join takes a row and meet takes a column is rank one:
    `T[i][m] = ±2 s₁ s₂ · p_i · join(p,q,r)_m`.  Hence every non-zero row is the common plane, every
    non-zero column is the common point (whichever entry the arg-max selects), and the tensor vanishes
    iff `p = 0` or p, q, r are dependent (the lines coincide). -/
theorem T01_7_blinn_rank_one (p q r : Nat → K) (s1 s2 : K) (L M : List Nat → K)
    (hL : ∀ k l, k < 4 → l < 4 → L [k, l] = s1 * plucker p q k l)
    (hM : ∀ k l, k < 4 → l < 4 → M [k, l] = s2 * plucker p r k l) :
    match Gen.join_L3L3, Gen.meet_L3L3, Gen.join_P3P3P3 with
    | some cj, some cm, some c3 =>
      ((∀ i m, i < 4 → m < 4 → lastResult cj [L, M] [] [i, m] = 2 * s1 * s2 * p i * lastResult c3 [vec p, vec q, vec r] [] [m]) ∨
       (∀ i m, i < 4 → m < 4 → lastResult cj [L, M] [] [i, m] = -2 * s1 * s2 * p i * lastResult c3 [vec p, vec q, vec r] [] [m])) ∧
      (∀ i m, i < 4 → m < 4 → lastResult cm [L, M] [] [i, m] = lastResult cj [L, M] [] [i, m])
    | _, _, _ => True := by
  simp only [Gen.join_L3L3, Gen.meet_L3L3, Gen.join_P3P3P3]
  refine ⟨?_, ?_⟩
  · first
    | (left; intro i m hi hm; interval_cases i <;> interval_cases m <;> traced_simp [hL, hM, plucker] <;> ring1)
    | (right; intro i m hi hm; interval_cases i <;> interval_cases m <;> traced_simp [hL, hM, plucker] <;> ring1)
  · first | (intro i m hi hm; trivial) | (intro i m hi hm; rfl) | trivial

/-- **T01.9** round trip in the plane, literally: `meet(join(p,q), join(p,r)) = ± det[p,q,r] · p` -/
theorem T01_9_roundtrip_P2 (p q r : Nat → K) :
    match Gen.join_P2P2, Gen.meet_L2L2 with
    | some cj, some cm =>
      let l1 := fun idx => lastResult cj [vec p, vec q] [] idx
      let l2 := fun idx => lastResult cj [vec p, vec r] [] idx
      (∀ i, i < 3 → lastResult cm [l1, l2] [] [i] = det3 p q r * p i) ∨
      (∀ i, i < 3 → lastResult cm [l1, l2] [] [i] = - (det3 p q r * p i))
    | _, _ => True := by
  simp only [Gen.join_P2P2, Gen.meet_L2L2]
  first
  | (left; intro i hi; interval_cases i <;> traced_simp [det3] <;> ring1)
  | (right; intro i hi; interval_cases i <;> traced_simp [det3] <;> ring1)

/-- … and its dual `join(meet(l,m), meet(l,n)) = ± det[l,m,n] · l` -/
theorem T01_9_roundtrip_L2 (l m n : Nat → K) :
    match Gen.join_P2P2, Gen.meet_L2L2 with
    | some cj, some cm =>
      let x1 := fun idx => lastResult cm [vec l, vec m] [] idx
      let x2 := fun idx => lastResult cm [vec l, vec n] [] idx
      (∀ i, i < 3 → lastResult cj [x1, x2] [] [i] = det3 l m n * l i) ∨
      (∀ i, i < 3 → lastResult cj [x1, x2] [] [i] = - (det3 l m n * l i))
    | _, _ => True := by
  simp only [Gen.join_P2P2, Gen.meet_L2L2]
  first
  | (left; intro i hi; interval_cases i <;> traced_simp [det3] <;> ring1)
  | (right; intro i hi; interval_cases i <;> traced_simp [det3] <;> ring1)

/-- non-vacuity: the hypotheses of T01.7 are met by the model's own Plücker matrices -/
example : ∀ k l, k < 4 → l < 4 →
    (fun idx : List Nat => plucker (fun i => ([1, 2, 3, 1] : List Int).getD i 0) (fun i => ([0, 1, -1, 2] : List Int).getD i 0)
      (idx.getD 0 0) (idx.getD 1 0)) [k, l]
      = 1 * plucker (fun i => ([1, 2, 3, 1] : List Int).getD i 0) (fun i => ([0, 1, -1, 2] : List Int).getD i 0) k l := by
  intro k l _ _; simp

end Geo
