/-
  C14 — quadric–line intersection, tangents, polars and duals are mutually consistent.
-/
import Geo.Gen.Kernels
import Geo.Kernels
import Geo.Proofs.Lemmas
import Mathlib.Tactic.FieldSimp
import Mathlib.LinearAlgebra.Matrix.NonsingularInverse
namespace Geo
open Spec

section
variable {K : Type} [CommRing K]

/-- skew matrix of the code's `hat_matrix` (n = 3): `hat(x)_{jk} = ε_{jkl} x_l` -/
def hat (x : Nat → K) (j k : Nat) : K :=
  match j, k with
  | 0, 1 => x 2 | 1, 0 => -(x 2)
  | 0, 2 => -(x 1) | 2, 0 => x 1
  | 1, 2 => x 0 | 2, 1 => -(x 0)
  | _, _ => 0

/-- the closed form above is the regenerated `hat_matrix` -/
theorem T14_hat_is_code (x : Nat → K) :
    ∀ j k, j < 3 → k < 3 → (hatMatrix3 Gen.hat3I Gen.hat3J x).get j k = hat x j k := by
  intro j k hj hk
  interval_cases j <;> interval_cases k <;> simp [hatMatrix3, Gen.hat3I, Gen.hat3J, Mat.ofFn, Mat.get, hat, List.find?, List.range_succ]

/-- **T14.1** reduction of "quadric ∩ line l" to a degenerate dual conic: with `m = hat(l)`, `uᵀ(mᵀ A m)u = (u×l)ᵀ A (u×l)`;
    the points of l are exactly the cross products `u × l`, so `mᵀAm` vanishes on u iff the point `u × l` of the line lies on
    the quadric -/
theorem T14_1_line_reduction (A : Nat → Nat → K) (l u : Nat → K) :
    (sumRange 3 fun j => sumRange 3 fun k => u j *
        (sumRange 3 fun a => sumRange 3 fun b => hat l a j * A a b * hat l b k) * u k)
      = sumRange 3 fun a => sumRange 3 fun b => cross u l a * A a b * cross u l b := by
  simp [sumRange, hat, cross]
  ring

/-- **T14.2** decomposition of a rank-2 symmetric matrix `B = g hᵀ + h gᵀ`: its adjugate is `−(g×h)(g×h)ᵀ`, and adding the
    skew matrix of `±(g×h)` gives `2 g hᵀ` resp. `2 h gᵀ` — so any non-zero row / column of `B + hat(p)` is one of the components -/
theorem T14_2_decomposition (g h : Nat → K) :
    (∀ j k, j < 3 → k < 3 →
      (Mat.adjugate (Mat.ofFn 3 3 fun a b => g a * h b + h a * g b)).get j k = -(cross g h j * cross g h k)) ∧
    (∀ j k, j < 3 → k < 3 → (g j * h k + h j * g k) + hat (cross g h) j k = 2 * (g j * h k)) ∧
    (∀ j k, j < 3 → k < 3 → (g j * h k + h j * g k) + hat (fun i => -(cross g h i)) j k = 2 * (h j * g k)) := by
  refine ⟨?_, ?_, ?_⟩
  · intro j k hj hk
    interval_cases j <;> interval_cases k <;>
      simp [Mat.adjugate, Mat.detAux, Mat.ofFn, Mat.get, Mat.minor, sumRange, List.range_succ, cross] <;> ring
  · intro j k hj hk
    interval_cases j <;> interval_cases k <;> simp [hat, cross] <;> ring
  · intro j k hj hk
    interval_cases j <;> interval_cases k <;> simp [hat, cross] <;> ring

/-- **T14.3** a secant through two points p₁, p₂ of the quadric (`pᵢᵀApᵢ = 0`), `l = p₁ × p₂`: the reduced matrix is
    `(p₁ᵀAp₂) · (−(p₁p₂ᵀ + p₂p₁ᵀ))`… stated on the quadratic form: for every u,
    `(u×l)ᵀA(u×l) = −2 (u·p₁)(u·p₂)(p₁ᵀAp₂)·(−1)`; so the degenerate dual conic consists exactly of p₁ and p₂ -/
theorem T14_3_secant (A : Nat → Nat → K) (p1 p2 u : Nat → K) (hs : ∀ a b, A a b = A b a)
    (h1 : (sumRange 3 fun a => sumRange 3 fun b => p1 a * A a b * p1 b) = 0)
    (h2 : (sumRange 3 fun a => sumRange 3 fun b => p2 a * A a b * p2 b) = 0) :
    (sumRange 3 fun a => sumRange 3 fun b => cross u (cross p1 p2) a * A a b * cross u (cross p1 p2) b)
      = -2 * (dot 3 u p1) * (dot 3 u p2) * (sumRange 3 fun a => sumRange 3 fun b => p1 a * A a b * p2 b) := by
  simp only [sumRange, cross, dot] at h1 h2 ⊢
  have s01 := hs 0 1; have s02 := hs 0 2; have s12 := hs 1 2
  rw [s01, s02, s12] at h1 h2 ⊢
  simp only [hs 1 0, hs 2 0, hs 2 1] at h1 h2 ⊢
  linear_combination ((u 0 * p2 0 + u 1 * p2 1 + u 2 * p2 2) ^ 2) * h1 + ((u 0 * p1 0 + u 1 * p1 1 + u 2 * p1 2) ^ 2) * h2

end

section
open Matrix
variable {n : Type} [Fintype n] [DecidableEq n] {F : Type} [Field F]

/-- **T14.5** (every dimension): the tangent hyperplane `A p` at a point of the quadric contains the point and is tangent
    (`(Ap)ᵀ A⁻¹ (Ap) = pᵀAp`); pole and polar are reciprocal (`A` symmetric); the dual of the dual is the quadric -/
theorem T14_5_tangent (A : Matrix n n F) (hA : IsUnit A.det) (hs : Aᵀ = A) (p : n → F) :
    (A.mulVec p ⬝ᵥ p = p ⬝ᵥ A.mulVec p) ∧
    (A.mulVec p ⬝ᵥ (A⁻¹).mulVec (A.mulVec p) = p ⬝ᵥ A.mulVec p) ∧
    (A⁻¹)⁻¹ = A := by
  refine ⟨dotProduct_comm _ _, ?_, Matrix.nonsing_inv_nonsing_inv A hA⟩
  rw [Matrix.mulVec_mulVec, Matrix.nonsing_inv_mul _ hA, Matrix.one_mulVec, dotProduct_comm]

/-- **is_tangent(h) ⇔ h touches the quadric**: `hᵀ A⁻¹ h = 0` (what `dual.contains(h)` tests) holds exactly when `h` is the
    tangent hyperplane `A p` at a point `p` of the quadric — for every dimension -/
theorem T14_5_is_tangent_iff (A : Matrix n n F) (hA : IsUnit A.det) (h : n → F) :
    h ⬝ᵥ (A⁻¹).mulVec h = 0 ↔ ∃ p : n → F, p ⬝ᵥ A.mulVec p = 0 ∧ A.mulVec p = h := by
  constructor
  · intro ht
    refine ⟨(A⁻¹).mulVec h, ?_, ?_⟩
    · rw [Matrix.mulVec_mulVec, Matrix.mul_nonsing_inv _ hA, Matrix.one_mulVec, dotProduct_comm]; exact ht
    · rw [Matrix.mulVec_mulVec, Matrix.mul_nonsing_inv _ hA, Matrix.one_mulVec]
  · rintro ⟨p, hp, rfl⟩
    rw [Matrix.mulVec_mulVec, Matrix.nonsing_inv_mul _ hA, Matrix.one_mulVec, dotProduct_comm]; exact hp

theorem T14_5_polar_reciprocity (A : Matrix n n F) (hs : Aᵀ = A) (x y : n → F) :
    A.mulVec x ⬝ᵥ y = A.mulVec y ⬝ᵥ x := by
  rw [dotProduct_comm (A.mulVec x) y, Matrix.dotProduct_mulVec, ← Matrix.mulVec_transpose, hs]

end
end Geo
