import Geo.Spec.Basic
namespace Geo
theorem C14_placeholder : (1 : Nat) = 1 := rfl
end Geo
