/-
  C10d — `angle_bisectors` in the plane, as the code constructs them.

  For the points at infinity `L`, `M` of the two lines the code forms the brackets `li = [p, L, I]`, `lj = [p, L, J]`, `mi`, `mj`
  (`p = (0, 0, 1)`), takes `a = √(lj·mj)`, `b = √(li·mi)` and returns the lines through the vertex in the directions
  `r = a·I + b·J` and `s = a·I − b·J`.  The square roots enter only through `a² = lj·mj`, `b² = li·mi` (whichever branch numpy picks).
  With `ζ(x) = x₀ + i·x₁`, `ζ̃(x) = x₀ − i·x₁` (for a real direction `ζ̃ = ζ̄`, and `ζ/ζ̃ = e^{2iθ}`):

  * `li = ζ(L)`, `lj = ζ̃(L)` — the brackets are the isotropic coordinates of the direction;
  * `ζ(r)²·ζ̃(L)ζ̃(M) = ζ̃(r)²·ζ(L)ζ(M)`, i.e. `e^{4iθ_r} = e^{2i(θ_L + θ_M)}`: `r` makes equal angles with both lines (same for `s`);
  * `ζ(r)ζ̃(s) + ζ̃(r)ζ(s) = 0`: `r ⟂ s`;
  * both are points at infinity, so the returned lines pass through the vertex in these directions.
  Proved in the ring of Gaussian numbers over any commutative ring (Geo/Proofs/GaussRing.lean).
-/
import Geo.Proofs.GaussRing
import Geo.Constructions
namespace Geo
open Spec

variable {F : Type} [CommRing F]

/-- isotropic coordinates of a point at infinity -/
def zeta (r : Nat → Gauss F) : Gauss F := r 0 + Gauss.I * r 1
def zetaT (r : Nat → Gauss F) : Gauss F := r 0 - Gauss.I * r 1

/-- the brackets of the code are the isotropic coordinates of the direction -/
theorem bracket_is_zeta (L : Nat → Gauss F) :
    det3 originG L circIG = zeta L ∧ det3 originG L circJG = zetaT L := by
  constructor <;> apply Gauss.ext' <;> simp [det3, originG, circIG, circJG, zeta, zetaT] <;> ring

theorem zeta_bisectors (a b : Gauss F) :
    zeta (bisectorR a b) = Gauss.I * (b + b) ∧ zetaT (bisectorR a b) = -(Gauss.I * (a + a)) ∧
    zeta (bisectorS a b) = -(Gauss.I * (b + b)) ∧ zetaT (bisectorS a b) = -(Gauss.I * (a + a)) ∧
    bisectorR a b 2 = 0 ∧ bisectorS a b 2 = 0 := by
  refine ⟨?_, ?_, ?_, ?_, ?_, ?_⟩ <;> apply Gauss.ext' <;> simp [zeta, zetaT, bisectorR, bisectorS, circIG, circJG] <;> ring

/-- **angle_bisectors**: for ANY choice of the two square roots (`a² = lj·mj`, `b² = li·mi`) the directions `r`, `s` make equal
    angles with both lines, are perpendicular to each other and are points at infinity -/
theorem T10_angle_bisectors (L M : Nat → Gauss F) (a b : Gauss F)
    (ha : a * a = det3 originG L circJG * det3 originG M circJG)
    (hb : b * b = det3 originG L circIG * det3 originG M circIG) :
    zeta (bisectorR a b) * zeta (bisectorR a b) * (zetaT L * zetaT M)
      = zetaT (bisectorR a b) * zetaT (bisectorR a b) * (zeta L * zeta M) ∧
    zeta (bisectorS a b) * zeta (bisectorS a b) * (zetaT L * zetaT M)
      = zetaT (bisectorS a b) * zetaT (bisectorS a b) * (zeta L * zeta M) ∧
    zeta (bisectorR a b) * zetaT (bisectorS a b) + zetaT (bisectorR a b) * zeta (bisectorS a b) = 0 ∧
    bisectorR a b 2 = 0 ∧ bisectorS a b 2 = 0 := by
  obtain ⟨z1, z2, z3, z4, z5, z6⟩ := zeta_bisectors a b
  rw [(bracket_is_zeta L).2, (bracket_is_zeta M).2] at ha
  rw [(bracket_is_zeta L).1, (bracket_is_zeta M).1] at hb
  refine ⟨?_, ?_, ?_, z5, z6⟩
  · rw [z1, z2, ← ha, ← hb]; ring
  · rw [z3, z4, ← ha, ← hb]; ring
  · rw [z1, z2, z3, z4]; ring

/-- non-vacuity: the lines y = 0 and x = 0 (directions (1,0), (0,1)): `li·mi = i`, `lj·mj = −i`; the hypotheses are met by
    `a = (1 − i)/√2`, `b = (1 + i)/√2` — over ℚ(√2); here the rational instance `L = M = (1, 0, 0)`: `a = b = 1` -/
example : ((1 : Gauss ℚ) * 1 = det3 originG (cplxG fun k => if k = 0 then (1 : ℚ) else 0) circJG * det3 originG (cplxG fun k => if k = 0 then (1 : ℚ) else 0) circJG) := by
  apply Gauss.ext' <;> simp [det3, originG, circJG, cplxG]

end Geo
