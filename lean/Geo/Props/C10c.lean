/-
  C10c — parallel / perpendicular / project / is_parallel of the plane, and the plane constructions of space, as the code
  composes them from join and meet (cross products in the plane, C01's T01.1 / T01.2; the closed form of line ∧ plane in
  space, C01's T01.6), for every representative of line and point.

  `SubspaceTensor.parallel`     : x = l ∧ l∞,  result = x ∨ p
  `LineTensor.perpendicular`    : p on l :  p ∨ (a, b, 0)        p off l :  mirror(p) ∨ p      (mirror through I, J: C10.mirror2)
  `SubspaceTensor.project`      : l ∧ perpendicular(p)
  `SubspaceTensor.is_parallel`  : l∞ contains l ∧ m
  `PlaneTensor.perpendicular`   : p ∨ (a, b, c, 0);   `project` : e ∧ that line = ±2s((e·q) p − (e·p) q)  (T01_6_meet_L3E)
-/
import Geo.Props.C10
import Geo.Constructions
namespace Geo
open Spec

variable {F : Type} [Field F]

/-- coordinate vector from a list (entries beyond the list are 0) -/
abbrev v3 (l : List F) : Nat → F := fun k => l.getD k 0



/-- **parallel**: the result passes through `p`, has the normal direction of `l` (so it is parallel to `l`), and is a proper
    line whenever `p` is finite and `l` is not the line at infinity — for every representative -/
theorem T10_parallel_2d (a b c x y z : F) :
    let r := parallel2 (v3 [a, b, c]) (v3 [x, y, z])
    r 0 * x + r 1 * y + r 2 * z = 0 ∧
    r 0 = -z * a ∧ r 1 = -z * b ∧ r 2 = a * x + b * y := by
  refine ⟨?_, ?_, ?_, ?_⟩ <;> simp [parallel2, cross, linf2, v3] <;> ring

/-- `is_parallel`: the meet of two lines lies on the line at infinity iff the normals are proportional -/
theorem T10_is_parallel_2d (a b c a' b' c' : F) :
    (cross (v3 [a, b, c]) (v3 [a', b', c'])) 2 = a * b' - b * a' := by
  simp [cross, v3]


/-- **perpendicular (p on l)**: passes through `p`, its normal is orthogonal to the normal of `l`, explicit coordinates;
    NOTE that incidence of `p` with `l` is not needed — the branch is correct for every point -/
theorem T10_perpendicular_on_2d (a b c x y z : F) :
    let r := perpOn2 (v3 [a, b, c]) (v3 [x, y, z])
    r 0 * x + r 1 * y + r 2 * z = 0 ∧ r 0 * a + r 1 * b = 0 ∧
    r 0 = -z * b ∧ r 1 = z * a ∧ r 2 = x * b - y * a := by
  simp [perpOn2, normalDir2, cross, v3]
  refine ⟨by ring, by ring⟩


/-- **perpendicular (p off l)**: the construction through the circular points returns `4i·z·(ax+by+cz)` times the SAME real
    line as the other branch, `(−bz, az, bx − ay)`: a real projective line through `p` perpendicular to `l`; it degenerates
    to the zero vector exactly when `p` is on `l` or at infinity — which is why the code needs the first branch -/
theorem T10_perpendicular_off_2d (a b c x y z : F) :
    let r := perpOff2 (cplxG (v3 [a, b, c])) (cplxG (v3 [x, y, z]))
    let t := a * x + b * y + c * z
    (r 0).re = 0 ∧ (r 1).re = 0 ∧ (r 2).re = 0 ∧
    (r 0).im = 4 * z * t * (-(z * b)) ∧ (r 1).im = 4 * z * t * (z * a) ∧ (r 2).im = 4 * z * t * (x * b - y * a) := by
  simp [perpOff2, mirror2G, cross, cplxG, circIG, circJG, v3]
  refine ⟨?_, ?_, ?_, ?_, ?_, ?_⟩ <;> ring


/-- **project**: the foot lies on `l`, the vector from `p` to it is a multiple of the normal of `l`, and its last coordinate is
    `z·(a² + b²)` (finite for finite `p` and a proper line); for `z = 1` it is the Cartesian foot of the specification -/
theorem T10_project_2d (a b c x y z : F) :
    let r := project2 (v3 [a, b, c]) (v3 [x, y, z])
    a * r 0 + b * r 1 + c * r 2 = 0 ∧
    (r 0 * z - x * r 2) * b - (r 1 * z - y * r 2) * a = 0 ∧
    r 2 = z * (a ^ 2 + b ^ 2) := by
  simp [project2, perpOn2, normalDir2, cross, v3]
  refine ⟨by ring, by ring, by ring⟩

theorem T10_project_2d_spec (a b c x y : F) (hn : a ^ 2 + b ^ 2 ≠ 0) :
    let r := project2 (v3 [a, b, c]) (v3 [x, y, 1])
    footHyper [a, b, c] [x, y, 1] = [r 0 / r 2, r 1 / r 2, 1] := by
  simp [project2, perpOn2, normalDir2, cross, v3, footHyper, norm2, ldot, vsub, vscale, affine, normal, offset, homog]
  constructor <;> field_simp <;> ring

/-- mirror, project and the point are collinear with the normal: `mirror + p = 2·foot` in affine coordinates is
    `T10_mirror_involution_2d`; here the homogeneous version for every representative: `m·(N z) + p·(2 z N z) = …` reduces to
    the statement that the three points `p`, `project p`, `mirror p` are collinear -/
theorem T10_mirror_project_collinear (a b c x y z : F) :
    let m : Nat → F := v3 [(a ^ 2 + b ^ 2) * x - 2 * (a * x + b * y + c * z) * a,
                           (a ^ 2 + b ^ 2) * y - 2 * (a * x + b * y + c * z) * b, (a ^ 2 + b ^ 2) * z]
    det3 (v3 [x, y, z]) (project2 (v3 [a, b, c]) (v3 [x, y, z])) m = 0 := by
  simp [project2, perpOn2, normalDir2, cross, v3, det3]
  ring

/-! ## planes of space -/

abbrev v4 (l : List F) : Nat → F := fun k => l.getD k 0


/-- **PlaneTensor.project**: the foot lies on the plane; the vector from `p` to it is a multiple of the normal `(a, b, c)`
    (each coordinate: `foot_i·p_3 − p_i·foot_3 = −(e·p)·p_3·n_i`); its last coordinate is `p_3·|n|²` -/
theorem T10_plane_project (a b c d x y z w : F) :
    let e := v4 [a, b, c, d]
    let p := v4 [x, y, z, w]
    let r := planeFoot e p
    dot 4 e r = 0 ∧
    r 3 = w * (a ^ 2 + b ^ 2 + c ^ 2) ∧
    r 0 * w - x * r 3 = -(dot 4 e p) * w * a ∧ r 1 * w - y * r 3 = -(dot 4 e p) * w * b ∧ r 2 * w - z * r 3 = -(dot 4 e p) * w * c := by
  simp [planeFoot, normalDir3, dot, sumRange, v4]
  refine ⟨by ring, by ring, by ring, by ring, by ring⟩

theorem T10_plane_project_spec (a b c d x y z : F) (hn : a ^ 2 + b ^ 2 + c ^ 2 ≠ 0) :
    let r := planeFoot (v4 [a, b, c, d]) (v4 [x, y, z, 1])
    footHyper [a, b, c, d] [x, y, z, 1] = [r 0 / r 3, r 1 / r 3, r 2 / r 3, 1] := by
  simp [planeFoot, normalDir3, dot, sumRange, v4, footHyper, norm2, ldot, vsub, vscale, affine, normal, offset, homog]
  refine ⟨?_, ?_, ?_⟩ <;> field_simp <;> ring

/-- **PlaneTensor.perpendicular(point)** = `p ∨ (a, b, c, 0)`: its Plücker matrix annihilates nothing but the line through
    `p` with direction `n`: the line contains `p` and the point at infinity of the normal (C01's incidence theorem for the
    traced two-point join), and its direction `(a, b, c)` is the normal of the plane — stated on the Plücker coordinates:
    the moment-free part `L^{i3}` is `∓ w·n_i` -/
theorem T10_plane_perpendicular (a b c x y z w : F) :
    let L := plucker (v4 [x, y, z, w]) (v4 [a, b, c, 0])
    L 1 2 = -(w * a) ∧ L 0 2 = w * b ∧ L 0 1 = -(w * c) := by
  simp [plucker, v4]

/-- `PlaneTensor.parallel` / `is_parallel` for planes: `x = e ∧ e∞` is the line at infinity of `e`; two planes are parallel iff
    their normals are proportional — all 2×2 minors of the normals vanish iff the meet `e ∧ f` lies in the plane at infinity.
    Stated on the closed form of `meet(e, f)` (T01_5_meet_EE): a point `x` of the plane at infinity (`x_3 = 0`) lies on the meet
    line iff it is orthogonal to both normals. -/
theorem T10_planes_parallel_iff (a b c a' b' c' : F)
    (h : a * b' - b * a' = 0 ∧ a * c' - c * a' = 0 ∧ b * c' - c * b' = 0) (x y z : F)
    (hx : a * x + b * y + c * z = 0) (ha : a ≠ 0 ∨ b ≠ 0 ∨ c ≠ 0) :
    a' * x + b' * y + c' * z = 0 := by
  obtain ⟨h1, h2, h3⟩ := h
  rcases ha with ha | ha | ha
  · have : a * (a' * x + b' * y + c' * z) = a' * (a * x + b * y + c * z) + (a * b' - b * a') * y + (a * c' - c * a') * z := by ring
    rw [hx, h1, h2] at this
    simpa [ha] using this
  · have : b * (a' * x + b' * y + c' * z) = b' * (a * x + b * y + c * z) - (a * b' - b * a') * x + (b * c' - c * b') * z := by ring
    rw [hx, h1, h3] at this
    simpa [ha] using this
  · have : c * (a' * x + b' * y + c' * z) = c' * (a * x + b * y + c * z) - (a * c' - c * a') * x - (b * c' - c * b') * y := by ring
    rw [hx, h2, h3] at this
    simpa [ha] using this

/-- non-vacuity (numbers): the line x + 2y − 5 = 0 and the point (3, 4): parallel through it is x + 2y − 11 = 0, the foot of the
    perpendicular is (9/5, 8/5), both branches of `perpendicular` give 2x − y − 2 = 0 -/
example : parallel2 (v3 [(1 : ℚ), 2, -5]) (v3 [3, 4, 1]) 2 = 11 ∧
    project2 (v3 [(1 : ℚ), 2, -5]) (v3 [3, 4, 1]) 0 / project2 (v3 [(1 : ℚ), 2, -5]) (v3 [3, 4, 1]) 2 = 9 / 5 ∧
    perpOn2 (v3 [(1 : ℚ), 2, -5]) (v3 [3, 4, 1]) 2 = 2 := by
  simp [parallel2, project2, perpOn2, normalDir2, cross, linf2, v3]
  norm_num

/-- the executable mirror construction of Geo.Constructions is the one `T10_mirror2` (C10) is about -/
theorem mirror2G_eq_mirror2 (l p : Nat → Gauss F) : mirror2G l p = mirror2 l p := rfl

end Geo
