/-
  C09b — consequences of the Laguerre closed form (C09.T09_5) and the point–line distance through `project`:
  antisymmetry of `angle` in its last two arguments, modulus one (the returned angle is real), invariance under direct
  isometries and negation under reflections; `dist(point, line)² = (l·p)² / ((a² + b²) p_z²)` for every representative,
  composed from the model of `project` (Geo.Constructions) and the squared point distance of T09_1.
-/
import Geo.Props.C09
import Geo.Constructions
import Mathlib.Tactic.FieldSimp
import Mathlib.Tactic.LinearCombination
namespace Geo
open Spec

variable {F : Type} [Field F] [CharZero F]

/-- numerator and denominator of the cross ratio `cr(b, c, I, J)` seen from `a`, as `crossratio` forms them (regenerated) -/
def angNum (a b c : Nat → F) : Gauss F :=
  Gen.cr_num (Gen.cr_ac_from (cplx a) (cplx b) (cplx c) circI circJ) (Gen.cr_bd_from (cplx a) (cplx b) (cplx c) circI circJ)
    (Gen.cr_ad_from (cplx a) (cplx b) (cplx c) circI circJ) (Gen.cr_bc_from (cplx a) (cplx b) (cplx c) circI circJ)
def angDen (a b c : Nat → F) : Gauss F :=
  Gen.cr_den (Gen.cr_ac_from (cplx a) (cplx b) (cplx c) circI circJ) (Gen.cr_bd_from (cplx a) (cplx b) (cplx c) circI circJ)
    (Gen.cr_ad_from (cplx a) (cplx b) (cplx c) circI circJ) (Gen.cr_bc_from (cplx a) (cplx b) (cplx c) circI circJ)

theorem ang_closed (a b c : Nat → F) (ha : a 2 = 1) (hb : b 2 = 1) (hc : c 2 = 1) :
    (angNum a b c).re = (b 0 - a 0) * (c 0 - a 0) + (b 1 - a 1) * (c 1 - a 1) ∧
    (angNum a b c).im = (b 1 - a 1) * (c 0 - a 0) - (b 0 - a 0) * (c 1 - a 1) ∧
    (angDen a b c).re = (angNum a b c).re ∧ (angDen a b c).im = -(angNum a b c).im :=
  T09_5_laguerre a b c ha hb hc

/-- **antisymmetry**: swapping the last two arguments swaps numerator and denominator, i.e. inverts the cross ratio:
    `angle(a, c, b) = ½i·log(1/cr) = −angle(a, b, c)` -/
theorem T09_5_antisymmetric (a b c : Nat → F) (ha : a 2 = 1) (hb : b 2 = 1) (hc : c 2 = 1) :
    angNum a c b = angDen a b c ∧ angDen a c b = angNum a b c := by
  obtain ⟨n1, n2, d1, d2⟩ := ang_closed a b c ha hb hc
  obtain ⟨m1, m2, e1, e2⟩ := ang_closed a c b ha hc hb
  constructor <;> apply Gauss.ext'
  · rw [m1, d1, n1]; ring
  · rw [m2, d2, n2]; ring
  · rw [e1, m1, n1]; ring
  · rw [e2, m2, n2]; ring

/-- **modulus one**: `|num|² = |den|²`, so the cross ratio lies on the unit circle and `½i·log` of it is a real angle -/
theorem T09_5_unit_modulus (a b c : Nat → F) (ha : a 2 = 1) (hb : b 2 = 1) (hc : c 2 = 1) :
    Gauss.normSq (angNum a b c) = Gauss.normSq (angDen a b c) := by
  obtain ⟨-, -, d1, d2⟩ := ang_closed a b c ha hb hc
  simp only [Gauss.normSq]
  rw [d1, d2]; ring

/-- a direct isometry `x ↦ R x + t` (`R = [[k, −s], [s, k]]`, `k² + s² = 1`) applied to a point with last coordinate 1 -/
def isoPt (k s t0 t1 : F) (p : Nat → F) : Nat → F :=
  fun i => match i with | 0 => k * p 0 - s * p 1 + t0 | 1 => s * p 0 + k * p 1 + t1 | _ => p 2
/-- an indirect isometry (reflection in the x-axis followed by a direct one) -/
def refPt (k s t0 t1 : F) (p : Nat → F) : Nat → F :=
  fun i => match i with | 0 => k * p 0 + s * p 1 + t0 | 1 => s * p 0 - k * p 1 + t1 | _ => p 2

/-- **invariance under direct isometries**, **negation under reflections**: numerator (and with it the denominator, its
    conjugate) is multiplied by `k² + s² = 1`, resp. replaced by its conjugate -/
theorem T09_5_isometry (a b c : Nat → F) (k s t0 t1 : F) (hks : k ^ 2 + s ^ 2 = 1)
    (ha : a 2 = 1) (hb : b 2 = 1) (hc : c 2 = 1) :
    angNum (isoPt k s t0 t1 a) (isoPt k s t0 t1 b) (isoPt k s t0 t1 c) = angNum a b c ∧
    angNum (refPt k s t0 t1 a) (refPt k s t0 t1 b) (refPt k s t0 t1 c) = angDen a b c := by
  obtain ⟨n1, n2, d1, d2⟩ := ang_closed a b c ha hb hc
  obtain ⟨i1, i2, -, -⟩ := ang_closed (isoPt k s t0 t1 a) (isoPt k s t0 t1 b) (isoPt k s t0 t1 c) ha hb hc
  obtain ⟨r1, r2, -, -⟩ := ang_closed (refPt k s t0 t1 a) (refPt k s t0 t1 b) (refPt k s t0 t1 c) ha hb hc
  constructor <;> apply Gauss.ext'
  · rw [i1, n1]; simp only [isoPt]
    linear_combination ((b 0 - a 0) * (c 0 - a 0) + (b 1 - a 1) * (c 1 - a 1)) * hks
  · rw [i2, n2]; simp only [isoPt]
    linear_combination ((b 1 - a 1) * (c 0 - a 0) - (b 0 - a 0) * (c 1 - a 1)) * hks
  · rw [r1, d1, n1]; simp only [refPt]
    linear_combination ((b 0 - a 0) * (c 0 - a 0) + (b 1 - a 1) * (c 1 - a 1)) * hks
  · rw [r2, d2, n2]; simp only [refPt]
    linear_combination (-((b 1 - a 1) * (c 0 - a 0) - (b 0 - a 0) * (c 1 - a 1))) * hks

/-- **dist(point, line)²**: the squared Cartesian distance between `p` and the foot `project2 l p` (both dehomogenised) is
    `(l·p)² / ((a² + b²)·p_z²)`, for every representative of the line and of the finite point -/
theorem T09_3_dist_point_line_sq (a b c x y z : F) (hz : z ≠ 0) (hn : a ^ 2 + b ^ 2 ≠ 0) :
    let l : Nat → F := fun k => [a, b, c].getD k 0
    let p : Nat → F := fun k => [x, y, z].getD k 0
    let f := project2 l p
    (x / z - f 0 / f 2) ^ 2 + (y / z - f 1 / f 2) ^ 2 = (a * x + b * y + c * z) ^ 2 / ((a ^ 2 + b ^ 2) * z ^ 2) := by
  simp [project2, perpOn2, normalDir2, cross]
  have h2 : z * (a * a) + z * (b * b) ≠ 0 := by
    have : z * (a * a) + z * (b * b) = z * (a ^ 2 + b ^ 2) := by ring
    rw [this]; exact mul_ne_zero hz hn
  have h3 : a * (z * a) - -(z * b) * b ≠ 0 := by
    have : a * (z * a) - -(z * b) * b = z * (a ^ 2 + b ^ 2) := by ring
    rw [this]; exact mul_ne_zero hz hn
  field_simp
  ring

/-- non-vacuity: the right angle at the origin between (1,0) and (0,1): numerator `−i`, denominator `+i` (cr = −1) -/
example : (angNum (fun k => [(0 : ℚ), 0, 1].getD k 0) (fun k => [(1 : ℚ), 0, 1].getD k 0) (fun k => [(0 : ℚ), 1, 1].getD k 0)).im = -1 := by
  simp [angNum, Gen.cr_num, Gen.cr_ac_from, Gen.cr_bd_from, det3, cplx, circI, circJ]

end Geo
