/-
  Helper lemmas shared by the property files (bridges from the core-class model to Mathlib's rings).
-/
import Geo.Traced
import Geo.Spec.Basic
import Mathlib.Tactic.Ring
import Mathlib.Tactic.LinearCombination
import Mathlib.Tactic.IntervalCases
namespace Geo

@[simp] theorem ofInt_zero {K : Type} [Ring K] : (ofInt 0 : K) = 0 := rfl
@[simp] theorem ofInt_one {K : Type} [Ring K] : (ofInt 1 : K) = 1 := by
  show (ofNat' 1 : K) = 1
  simp [ofNat']
@[simp] theorem ofInt_neg_one {K : Type} [Ring K] : (ofInt (-1) : K) = -1 := by
  show -(ofNat' 1 : K) = -1
  simp [ofNat']

end Geo

namespace Geo
/-- unfold the evaluation of a traced scenario down to sums of products of coordinates -/
syntax "traced_simp" "[" Lean.Parser.Tactic.simpLemma,* "]" : tactic
macro_rules
  | `(tactic| traced_simp [$ls,*]) =>
    `(tactic| simp [lastResult, evalCalls, TCall.eval, evalEinsum, summedLabels, sumOver, prodOps, lookup,
        roleFn, epsFn, epsEntry, isPermOfRange, pairProd, sgnInt, sumRange, vec, mat, Spec.dot, $ls,*])
end Geo
