/-
  The Gaussian numbers over a commutative ring form a commutative ring: with this instance `ring` and `linear_combination`
  work directly on equations between Gaussian numbers (instead of splitting every identity into real and imaginary part).
-/
import Geo.Basic
import Mathlib.Tactic.Ring
import Mathlib.Tactic.LinearCombination
namespace Geo
namespace Gauss

variable {F : Type} [CommRing F]

instance : CommRing (Gauss F) where
  add_assoc := by intro a b c; apply Gauss.ext' <;> simp [add_assoc]
  zero_add := by intro a; apply Gauss.ext' <;> simp
  add_zero := by intro a; apply Gauss.ext' <;> simp
  add_comm := by intro a b; apply Gauss.ext' <;> simp [add_comm]
  mul_assoc := by intro a b c; apply Gauss.ext' <;> simp <;> ring
  one_mul := by intro a; apply Gauss.ext' <;> simp
  mul_one := by intro a; apply Gauss.ext' <;> simp
  left_distrib := by intro a b c; apply Gauss.ext' <;> simp <;> ring
  right_distrib := by intro a b c; apply Gauss.ext' <;> simp <;> ring
  mul_comm := by intro a b; apply Gauss.ext' <;> simp <;> ring
  zero_mul := by intro a; apply Gauss.ext' <;> simp
  mul_zero := by intro a; apply Gauss.ext' <;> simp
  neg_add_cancel := by intro a; apply Gauss.ext' <;> simp
  sub_eq_add_neg := by intro a b; apply Gauss.ext' <;> simp [sub_eq_add_neg]
  nsmul := nsmulRec
  zsmul := zsmulRec

/-- `i² = −1` -/
theorem I_mul_I : (I : Gauss F) * I = -1 := by apply Gauss.ext' <;> simp

end Gauss
end Geo
