/-
  Geo.Effects — a tiny alias / effect IR for the array write sites of geometer, a may-point-to checker, and
  (in Geo/Props/C12.lean) its soundness proof.  `Geo/Gen/Effects.lean` (translator A) lists, for every function of the
  library that writes into an array in place, the def-use slice of the written variable in this IR.
-/
namespace Geo.Effects

/-- where the buffer a variable points to comes from -/
inductive Origin
  | input     -- an argument (or something reachable from it: `x.array`, a view, a cached attribute `self._plane`)
  | global    -- a module-level constant (`I`, `J`, `infty`, `absolute_conic`, …)
  | cache     -- a class-level cache (`LeviCivitaTensor._cache`, `KroneckerDelta._cache`)
  | local     -- freshly allocated inside the function
deriving DecidableEq, Repr

-- variables are numbered

inductive Stmt
  | skip
  | fresh (x : Nat)                 -- x = np.zeros(...) / a + b / a.astype(..) / fancy indexing … : a new buffer
  | alias (x y : Nat)               -- x = y / y.array / y[..] (basic slice) / y.T / np.real_if_close(y) / y.copy() (shallow) …
  | bind (x : Nat) (o : Origin)     -- x bound to a parameter, a module constant or a cache entry
  | write (x : Nat)                 -- x[...] = …, x op= …, out=x
  | seq (a b : Stmt)
  | choice (a b : Stmt)             -- if / else, try / except
  | loop (body : Stmt)              -- for / while, any number of iterations
deriving Repr

/-- abstract environment: for each variable (index) the origins it may point to -/
abbrev AEnv := List (List Origin)

def allOrigins : List Origin := [.input, .global, .cache, .local]
/-- an unknown variable may point anywhere -/
def AEnv.get (A : AEnv) (x : Nat) : List Origin := A.getD x allOrigins
def AEnv.put (A : AEnv) (x : Nat) (s : List Origin) : AEnv := A.set x s

def unionO (a b : List Origin) : List Origin := a ++ b.filter (fun o => !a.contains o)
def AEnv.join (A B : AEnv) : AEnv := List.zipWith unionO A B
def subO (a b : List Origin) : Bool := a.all (b.contains ·)
/-- pointwise inclusion (same number of variables) -/
def AEnv.le (A B : AEnv) : Bool := A.length == B.length && (List.zipWith subO A B).all id

/-- iterate `A ↦ A ⊔ f A` (at most `fuel` times) -/
def iter (f : AEnv → AEnv) : Nat → AEnv → AEnv
  | 0, A => A
  | n + 1, A => let A' := A.join (f A); if A'.le A then A else iter f n A'

/-- abstract interpreter: resulting environment and "every write so far went to a certainly-local buffer" -/
def ainterp : Stmt → AEnv → AEnv × Bool
  | .skip, A => (A, true)
  | .fresh x, A => (A.put x [.local], true)
  | .alias x y, A => (A.put x (A.get y), true)
  | .bind x o, A => (A.put x [o], true)
  | .write x, A => (A, subO (A.get x) [.local])
  | .seq a b, A =>
    let r1 := ainterp a A
    let r2 := ainterp b r1.1
    (r2.1, r1.2 && r2.2)
  | .choice a b, A =>
    let r1 := ainterp a A
    let r2 := ainterp b A
    (r1.1.join r2.1, r1.2 && r2.2 && r1.1.length == r2.1.length)
  | .loop b, A =>
    let inv := iter (fun X => (ainterp b X).1) (4 * A.length + 1) A
    let r := ainterp b inv
    -- accepted only if `inv` really is an invariant that covers the entry state
    (inv, r.2 && A.le inv && r.1.le inv)

/-- the checker: start with nothing known about any of the `nv` variables -/
def check (nv : Nat) (s : Stmt) : Bool := (ainterp s (List.replicate nv allOrigins)).2

end Geo.Effects
