/-
  Geo.Indexing — model of `Tensor._get_index_mapping` / `utils.indexing.normalize_index` (which source axis each
  axis of `t[index]` comes from) and, independently, NumPy's documented indexing semantics (S-layer reference).
-/
import Geo.Tensor
namespace Geo

/-- one component of an index expression -/
inductive Ix
  | int            -- an integer
  | slice          -- any slice
  | none           -- `None` / `np.newaxis`
  | ellipsis       -- `...`
  | arr (ndim : Nat) (isNdarray : Bool)   -- integer index array with `ndim ≥ 1` dimensions: numpy array or (nested) list
  | mask (k : Nat)     -- boolean array with `k ≥ 1` dimensions (consumes k axes)
deriving DecidableEq, Repr

namespace Ix
def isNone : Ix → Bool | .none => true | _ => false
def isEllipsis : Ix → Bool | .ellipsis => true | _ => false
/-- number of array axes the component consumes, as counted by `normalize_index` -/
def slicedDims : Ix → Nat
  | .int => 1 | .slice => 1 | .none => 0 | .ellipsis => 1 | .arr _ _ => 1 | .mask k => k
/-- does `isinstance(ind, np.ndarray)` hold after `sanitize_index` ? -/
def isArray : Ix → Bool | .arr _ _ => true | .mask _ => true | _ => false
/-- `ndim` of the sanitized component as seen by `np.broadcast` (a k-dim mask becomes `nonzero`: 1-D for k = 1,
    a 2-D array of shape (k, m) for k ≥ 2; non-arrays are 0-d objects) -/
def bcastNdim : Ix → Nat
  | .arr d _ => d | .mask k => if k = 1 then 1 else 2 | _ => 0
end Ix

/-- `replace_ellipsis(n, index)` -/
def replaceEllipsis (n : Nat) (index : List Ix) : List Ix :=
  match index.findIdx? Ix.isEllipsis with
  | none => index
  | some loc =>
    let extra := n - (index.length - (index.filter Ix.isNone).length - 1)
    index.take loc ++ List.replicate extra Ix.slice ++ index.drop (loc + 1)

/-- `normalize_index(idx, shape)` (`none` = "Too many indices") -/
def normalizeIndex (rank : Nat) (index : List Ix) : Option (List Ix) :=
  let idx := replaceEllipsis rank index
  -- `hasattr(i, "ndim") and i.ndim >= 1` → `+= i.ndim` (numpy arrays, integer ones too); lists and scalars count 1
  let nSliced := (idx.map Ix.slicedDims).foldl (· + ·) 0
  let idx := idx ++ List.replicate (rank - nSliced) Ix.slice
  if (idx.filter (fun i => !i.isNone)).length > rank then none else some idx

/-- "a boolean mask is equivalent to one integer index array per masked axis": `np.nonzero` gives k one-dimensional arrays -/
def expandMasks (index : List Ix) : List Ix :=
  index.flatMap fun c => match c with
    | .mask k => List.replicate k (Ix.arr 1 true)
    | c => [c]

structure MapState where
  mapping : List (Option Nat)
  axis : Nat
  advancedPosition : Nat
  seenAdvanced : Bool

/-- body of the loop over the normalised index in `_get_index_mapping` -/
def mapStep (isAdvanced : Ix → Bool) (st : MapState) (ind : Ix) : MapState :=
  match ind with
  | .none => { st with mapping := st.mapping ++ [none] }
  | ind =>
    let st := if isAdvanced ind && !st.seenAdvanced
              then { st with advancedPosition := st.mapping.length, seenAdvanced := true } else st
    let st := if ind == Ix.slice then { st with mapping := st.mapping ++ [some st.axis] } else st
    { st with axis := st.axis + 1 }

/-- `Tensor._get_index_mapping(index)` : for each axis of the result the source axis (`none` = new / collection axis) -/
def indexMapping (rank : Nat) (index : List Ix) : Option (List (Option Nat)) :=
  let expanded := expandMasks index
  let hasArrays := expanded.any Ix.isArray
  let isAdvanced (c : Ix) : Bool := c.isArray || (hasArrays && c == Ix.int)
  -- adjacency is decided on the index expression itself (slice, None and Ellipsis separate)
  let positions := (expanded.zipIdx.filter fun p => isAdvanced p.1).map (·.2)
  let adjacent := positions == (List.range positions.length).map (positions.headD 0 + ·)
  match normalizeIndex rank expanded with
  | none => none
  | some norm =>
    let st := norm.foldl (mapStep isAdvanced) ⟨[], 0, 0, false⟩
    if !st.seenAdvanced then some st.mapping else
    -- b = np.broadcast(*advanced indices)
    let bnd := ((norm.filter isAdvanced).map Ix.bcastNdim).foldl max 0
    if !adjacent then some (List.replicate bnd none ++ st.mapping)
    else some (st.mapping.take st.advancedPosition ++ List.replicate bnd none ++ st.mapping.drop st.advancedPosition)

/-! ### NumPy reference semantics -/

/-- number of array axes a component consumes in NumPy -/
def Ix.npConsumed : Ix → Nat
  | .ellipsis => 0 | .none => 0 | .mask k => k | _ => 1

/-- expand the ellipsis / pad with slices (NumPy: every component consumes its axes; a k-dim mask consumes k) -/
def npExpand (rank : Nat) (index : List Ix) : Option (List Ix) :=
  let consumed := (index.map Ix.npConsumed).foldl (· + ·) 0
  if consumed > rank then none else
  if (index.filter Ix.isEllipsis).length > 1 then none else
  let fill := List.replicate (rank - consumed) Ix.slice
  match index.findIdx? Ix.isEllipsis with
  | some loc => some (index.take loc ++ fill ++ index.drop (loc + 1))
  | none => some (index ++ fill)

/-- one component of the expanded index: (result axes so far, next source axis, broadcast block already placed) -/
def npStep (hasArr adjacent : Bool) (bnd : Nat) (st : List (Option Nat) × Nat × Bool) (c : Ix) : List (Option Nat) × Nat × Bool :=
  match c with
  | .slice => (st.1 ++ [some st.2.1], st.2.1 + 1, st.2.2)
  | .none => (st.1 ++ [none], st.2.1, st.2.2)
  | .int => if hasArr then
              (if adjacent && !st.2.2 then (st.1 ++ List.replicate bnd none, st.2.1 + 1, true) else (st.1, st.2.1 + 1, st.2.2))
            else (st.1, st.2.1 + 1, st.2.2)
  | .arr _ _ => if adjacent && !st.2.2 then (st.1 ++ List.replicate bnd none, st.2.1 + 1, true) else (st.1, st.2.1 + 1, st.2.2)
  | .mask k => if adjacent && !st.2.2 then (st.1 ++ List.replicate bnd none, st.2.1 + k, true) else (st.1, st.2.1 + k, st.2.2)
  | .ellipsis => st

/-- NumPy: source axis of every result axis.  Integers are advanced indices as soon as an array index is
    present; the broadcast dimensions replace the advanced block when all advanced indices are adjacent, and
    come first otherwise. -/
def numpyAxes (rank : Nat) (index : List Ix) : Option (List (Option Nat)) :=
  match npExpand rank index with
  | none => none
  | some idx =>
    let hasArr := idx.any Ix.isArray
    -- walk: (result axes so far, next source axis, positions (in the result) of advanced components)
    let isAdv (c : Ix) : Bool := c.isArray || (hasArr && c == Ix.int)
    let bnd := (idx.map fun c => match c with | .arr d _ => d | .mask _ => 1 | _ => 0).foldl max 0
    -- adjacency of the advanced components in the index expression as written: a slice, `None` or an Ellipsis (even one
    -- that stands for no axis at all) between two advanced components separates them
    let advPos := (index.zipIdx.filter fun p => isAdv p.1).map (·.2)
    let adjacent := advPos == (List.range advPos.length).map (advPos.headD 0 + ·)
    let res := (idx.foldl (npStep hasArr adjacent bnd) ([], 0, false)).1
    if hasArr && !adjacent then some (List.replicate bnd none ++ res) else some res

def optIn (l : List Nat) : Option Nat → Bool
  | some a => l.contains a
  | none => false

/-- index types of `t[index]`: new covariant / contravariant axis lists given those of `t` -/
def indexTypes (cov con : List Nat) (mapping : List (Option Nat)) : List Nat × List Nat :=
  let z := mapping.zipIdx
  ((z.filter fun p => optIn cov p.1).map (·.2), (z.filter fun p => optIn con p.1).map (·.2))

end Geo

namespace Geo
/-- `Tensor.transpose`: a short `perm` is a cycle `(p₀ p₁ …)`: `a[pᵢ] = pᵢ₊₁` -/
def cyclePerm (rank : Nat) (perm : List Nat) : List Nat :=
  if perm.length < rank then
    (List.range perm.length).foldl (fun a ind => a.set (perm.getD ind 0) (perm.getD ((ind + 1) % perm.length) 0)) (List.range rank)
  else perm

/-- index types after `transpose(perm)`: result axis `i` carries the type of source axis `perm[i]` -/
def transposeTypes (perm cov con : List Nat) : List Nat × List Nat :=
  let z := perm.zipIdx
  ((z.filter fun p => cov.contains p.1).map (·.2), (z.filter fun p => con.contains p.1).map (·.2))

/-- `TensorCollection.expand_dims(axis)`: indices at or after `axis` shift by one -/
def expandDimsTypes (axis : Nat) (l : List Nat) : List Nat := l.map fun i => if i ≥ axis then i + 1 else i
end Geo
