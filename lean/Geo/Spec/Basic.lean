/-
  S-layer: what the properties talk about, independent of any code mechanism.
-/
import Geo.Basic
namespace Geo.Spec
open Geo

/-- `Σ_{i<n} a i * b i` — incidence pairing of a point and a hyperplane (and the Euclidean dot product) -/
def dot {α : Type} [Add α] [Mul α] [Zero α] (n : Nat) (a b : Nat → α) : α := sumRange n fun i => a i * b i

/-- same projective object: proportional by a non-zero scalar on the first `n` coordinates -/
def ProjEq {α : Type} [Mul α] [Zero α] (n : Nat) (a b : Nat → α) : Prop :=
  ∃ c : α, c ≠ 0 ∧ ∀ i, i < n → a i = c * b i

/-- the cross product of two 3-vectors -/
def cross {α : Type} [Mul α] [Sub α] (a b : Nat → α) : Nat → α
  | 0 => a 1 * b 2 - a 2 * b 1
  | 1 => a 2 * b 0 - a 0 * b 2
  | 2 => a 0 * b 1 - a 1 * b 0
  | _ => a 0 - a 0

/-- 3×3 determinant of three coordinate vectors -/
def det3 {α : Type} [Add α] [Mul α] [Sub α] (a b c : Nat → α) : α :=
  a 0 * (b 1 * c 2 - b 2 * c 1) - a 1 * (b 0 * c 2 - b 2 * c 0) + a 2 * (b 0 * c 1 - b 1 * c 0)

/-- 4×4 determinant of four coordinate vectors (Laplace expansion along the first vector) -/
def det4 {α : Type} [Add α] [Mul α] [Sub α] (a b c d : Nat → α) : α :=
  let m (i j k : Nat) := det3 (fun r => b ([i, j, k].getD r 0)) (fun r => c ([i, j, k].getD r 0)) (fun r => d ([i, j, k].getD r 0))
  a 0 * m 1 2 3 - a 1 * m 0 2 3 + a 2 * m 0 1 3 - a 3 * m 0 1 2

/-- Plücker coordinates `L^{kl} = ε^{ijkl} p_i q_j` of the line through two points of space -/
def plucker {α : Type} [Mul α] [Sub α] [Neg α] [Zero α] (p q : Nat → α) (k l : Nat) : α :=
  let up (k l : Nat) : α :=
    match k, l with
    | 0, 1 => p 2 * q 3 - p 3 * q 2
    | 0, 2 => p 3 * q 1 - p 1 * q 3
    | 0, 3 => p 1 * q 2 - p 2 * q 1
    | 1, 2 => p 0 * q 3 - p 3 * q 0
    | 1, 3 => p 2 * q 0 - p 0 * q 2
    | 2, 3 => p 0 * q 1 - p 1 * q 0
    | _, _ => 0
  if k < l then up k l else if l < k then -(up l k) else 0

end Geo.Spec
