/-
  S-layer (executable): Cartesian definitions of distance, foot point, mirror image, perpendicularity, parallelism,
  cross ratio by parameters … on homogeneous coordinate lists.  No code mechanism (no I, J, no ε) in here.
-/
import Geo.Basic
namespace Geo.Spec

section
variable {α : Type} [Add α] [Sub α] [Mul α] [Div α] [Zero α] [One α] [Neg α] [DecidableEq α]

def ldot (a b : List α) : α := (a.zipWith (· * ·) b).foldl (· + ·) 0
/-- affine part (dehomogenised) of a finite point -/
def affine (p : List α) : List α := p.dropLast.map (· / p.getLast?.getD 1)
def isInf (p : List α) : Bool := p.getLast?.getD 0 = 0
def vsub (a b : List α) : List α := a.zipWith (· - ·) b
def vadd (a b : List α) : List α := a.zipWith (· + ·) b
def vscale (c : α) (a : List α) : List α := a.map (c * ·)
def norm2 (a : List α) : α := ldot a a
def homog (x : List α) : List α := x ++ [1]

/-- squared Euclidean distance of two finite points -/
def dist2 (p q : List α) : α := norm2 (vsub (affine p) (affine q))

/-- normal vector (a, b[, c]) and offset of a hyperplane h·x = 0 -/
def normal (h : List α) : List α := h.dropLast
def offset (h : List α) : α := h.getLast?.getD 0

/-- foot of the perpendicular from finite point p onto the hyperplane h -/
def footHyper (h p : List α) : List α :=
  let x := affine p
  let n := normal h
  let t := (ldot n x + offset h) / norm2 n
  homog (vsub x (vscale t n))

/-- mirror image of p at the hyperplane h -/
def mirrorHyper (h p : List α) : List α :=
  let x := affine p
  let n := normal h
  let t := (ldot n x + offset h) / norm2 n
  homog (vsub x (vscale (t + t) n))

/-- squared distance point – hyperplane: (h·p)² / (|n|² p_z²) -/
def dist2Hyper (h p : List α) : α :=
  let v := ldot (normal h) (affine p) + offset h
  v * v / norm2 (normal h)

/-- a 3-D line given by two finite points a, b: foot of the perpendicular from p, mirror image, squared distance -/
def footLine (a b p : List α) : List α :=
  let xa := affine a
  let d := vsub (affine b) xa
  let t := ldot (vsub (affine p) xa) d / norm2 d
  homog (vadd xa (vscale t d))

def mirrorLine (a b p : List α) : List α :=
  let f := affine (footLine a b p)
  homog (vsub (vadd f f) (affine p))

def dist2Line (a b p : List α) : α := dist2 (footLine a b p) p

/-- cross ratio of four points `a + xᵢ b` on a line by their parameters -/
def crParam (x1 x2 x3 x4 : α) : α := (x1 - x3) * (x2 - x4) / ((x1 - x4) * (x2 - x3))

/-- e^{2iθ} data of the angle at a between (b − a) and (c − a) in the plane: (cos 2θ, sin 2θ) up to the common
    positive factor |u|²|v|², for the counter-clockwise angle θ from u to v -/
def angle2 (a b c : List α) : α × α :=
  let u := vsub (affine b) (affine a)
  let v := vsub (affine c) (affine a)
  let dt := ldot u v
  let cr := u.getD 0 0 * v.getD 1 0 - u.getD 1 0 * v.getD 0 0
  (dt * dt - cr * cr, (dt + dt) * cr)

end
end Geo.Spec
