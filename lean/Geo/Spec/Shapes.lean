/-
  S-layer (executable): closed segment / triangle / polygon membership, shoelace area, centroid — on affine
  (dehomogenised) coordinates in an ordered field.  Independent of the code's mechanisms.
-/
import Geo.Spec.Euclid
namespace Geo.Spec

section
variable {α : Type} [Add α] [Sub α] [Mul α] [Div α] [Zero α] [One α] [Neg α] [DecidableEq α]
  [LT α] [LE α] [DecidableLT α] [DecidableLE α]

/-- 2-D orientation determinant of three affine points -/
def orient (a b c : List α) : α :=
  (b.getD 0 0 - a.getD 0 0) * (c.getD 1 0 - a.getD 1 0) - (b.getD 1 0 - a.getD 1 0) * (c.getD 0 0 - a.getD 0 0)

/-- is the affine point p on the closed segment [a,b] (any dimension): p − a = t (b − a), 0 ≤ t ≤ 1 -/
def onSegment (a b p : List α) : Bool :=
  let d := vsub b a
  let e := vsub p a
  let dd := norm2 d
  let t := ldot e d                      -- t·|d|²
  -- collinear: e·|d|² = (e·d) d
  decide (vscale dd e = vscale t d) && decide (0 ≤ t) && decide (t ≤ dd)

/-- ray from finite a with direction d (point at infinity): p = a + s d, s ≥ 0 -/
def onRay (a d p : List α) : Bool :=
  let e := vsub p a
  let dd := norm2 d
  let t := ldot e d
  decide (vscale dd e = vscale t d) && decide (0 ≤ t)

/-- closed triangle: all three orientation determinants have one sign (or vanish) -/
def inTriangle (a b c p : List α) : Bool :=
  let d1 := orient a b p
  let d2 := orient b c p
  let d3 := orient c a p
  (decide (0 ≤ d1) && decide (0 ≤ d2) && decide (0 ≤ d3)) || (decide (d1 ≤ 0) && decide (d2 ≤ 0) && decide (d3 ≤ 0))

/-- edges of the vertex cycle -/
def cycleEdges {β : Type} (vs : List β) : List (β × β) :=
  match vs with
  | [] => []
  | v :: rest => (v :: rest).zip (rest ++ [v])

/-- closed simple polygon in the plane: on the boundary, or an odd number of edges crossing the horizontal ray to
    the right of p (half-open rule: an edge counts when exactly one endpoint is strictly above p's height and the
    crossing is strictly to the right) -/
def inPolygon (vs : List (List α)) (p : List α) : Bool :=
  let es := cycleEdges vs
  let boundary := es.any fun e => onSegment e.1 e.2 p
  let py := p.getD 1 0
  let crossings := es.filter fun e =>
    let (a, b) := e
    let ay := a.getD 1 0
    let by' := b.getD 1 0
    (decide (py < ay) != decide (py < by')) &&
      -- the crossing point of the edge with the horizontal line through p lies strictly to the right of p:
      -- orientation test, sign-adjusted by the direction of the edge
      (if decide (ay < by') then decide (0 < orient a b p) else decide (orient a b p < 0))
  boundary || (crossings.length % 2 == 1)

/-- shoelace area ×2 (signed) -/
def shoelace2 (vs : List (List α)) : α :=
  ((cycleEdges vs).map fun e => e.1.getD 0 0 * e.2.getD 1 0 - e.2.getD 0 0 * e.1.getD 1 0).foldl (· + ·) 0

/-- 3-D polygon: vector area ×2: Σ vᵢ × vᵢ₊₁ -/
def vectorArea2 (vs : List (List α)) : List α :=
  ((cycleEdges vs).map fun e =>
    let (a, b) := e
    [a.getD 1 0 * b.getD 2 0 - a.getD 2 0 * b.getD 1 0, a.getD 2 0 * b.getD 0 0 - a.getD 0 0 * b.getD 2 0,
     a.getD 0 0 * b.getD 1 0 - a.getD 1 0 * b.getD 0 0]).foldl vadd [0, 0, 0]

/-- area centroid of a simple planar polygon (numerators; divide by 3·shoelace2) -/
def centroidNum (vs : List (List α)) : List α :=
  ((cycleEdges vs).map fun e =>
    let (a, b) := e
    let w := a.getD 0 0 * b.getD 1 0 - b.getD 0 0 * a.getD 1 0
    [(a.getD 0 0 + b.getD 0 0) * w, (a.getD 1 0 + b.getD 1 0) * w]).foldl vadd [0, 0]

end
end Geo.Spec
