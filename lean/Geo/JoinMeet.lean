/-
  Geo.JoinMeet — model of `geometer/point.py:_join_meet_duality` (join / meet dispatcher),
  `LineTensor.covariant_tensor / contravariant_tensor / is_coplanar`, `SubspaceTensor.contains`.
  The dispatcher builds the same `TensorDiagram`s as the code (node identity included) and
  evaluates them with `Diagram.eval`.
-/
import Geo.LeviCivita
namespace Geo

/-- geometric class of a projective tensor -/
inductive Kind | point | line | plane
deriving DecidableEq, Repr

/-- a projective object: class, Python object identity, number of collection axes, and the
    coordinate array (shape = collection shape ++ tensor shape).  `cov` = the tensor indices are
    covariant (points; 3-D lines in covariant form), otherwise contravariant. -/
structure GObj (α : Type) where
  id : Nat
  kind : Kind
  cov : Bool
  nfree : Nat
  t : Tens α

namespace GObj
variable {α : Type}
def trank (o : GObj α) : Nat := o.t.rank - o.nfree
/-- `tensor_shape` -/
def tshape (o : GObj α) : Nat × Nat := if o.cov then (o.trank, 0) else (0, o.trank)
/-- `dim + 1` -/
def n (o : GObj α) : Nat := o.t.shape.getLast?.getD 0
def node (o : GObj α) : Node :=
  let axes := (List.range o.trank).map (o.nfree + ·)
  ⟨o.id, o.t.shape, if o.cov then axes else [], if o.cov then [] else axes⟩
def freeShape (o : GObj α) : List Nat := o.t.shape.take o.nfree
end GObj

inductive JMErr
  | linearDependence (maskShape : List Nat) (mask : List Bool)
  | notCoplanar
  | tensorComputation
  | valueError
  | geometryException
  | runtimeError
deriving DecidableEq, Repr

/-- object id used for the ε node of a call (one Python object per call) -/
def epsId : Nat := 1000000

def epsNode (n : Nat) (cov : Bool) : Node :=
  let axes := List.range n
  ⟨epsId, List.replicate n n, if cov then axes else [], if cov then [] else axes⟩

section
variable {α : Type} [Add α] [Mul α] [Zero α] [One α] [Neg α] [DecidableEq α]

/-- run a diagram given as edges over objects / ε; arrays are looked up by node id -/
def runDiagram (objs : List (GObj α)) (n : Nat) (edges : List (Node × Node)) :
    Except JMErr (Tens α × EinsumSpec) :=
  match Diagram.ofEdges edges with
  | .error _ => .error .tensorComputation
  | .ok d =>
    let arrays := d.nodes.map fun nd =>
      match objs.find? (·.id = nd.id) with
      | some o => o.t
      | none => epsTens n
    .ok (d.eval arrays)

/-- `Tensor.is_zero()` over the tensor axes: one boolean per collection position -/
def isZeroMask (t : Tens α) (nfree : Nat) : List Nat × List Bool :=
  let fs := t.shape.take nfree
  (fs, (Tens.allIndices fs).map fun pos => (t.slice pos).isZero)

/-- index of the first entry of maximal modulus (`np.abs(array).argmax()`), given a modulus-order -/
def argmaxBy (le : α → α → Bool) (xs : List α) : Nat :=
  (xs.zipIdx.foldl (fun (best : Option (α × Nat)) (p : α × Nat) =>
    match best with
    | none => some p
    | some b => if le p.1 b.1 then some b else some p) none).elim 0 (·.2)

/-- result of the ε-contraction, before the dependence check: array, free axes, (cov, con) -/
structure RawResult (α : Type) where
  t : Tens α
  nfree : Nat
  ncov : Nat
  ncon : Nat

/-- the branch selection and the diagrams of `_join_meet_duality`; `absLe a b` ⇔ |a| ≤ |b| -/
def joinMeetRaw (absLe : α → α → Bool) (args : List (GObj α)) (intersectLines : Bool) :
    Except JMErr (RawResult α) :=
  match args with
  | [] | [_] => .error .valueError
  | a :: rest =>
    let n := a.n
    let ofSpec (r : Tens α × EinsumSpec) : RawResult α :=
      ⟨r.1, r.2.nFree, r.2.nCov, r.1.rank - r.2.nFree - r.2.nCov⟩
    if rest.all (fun o => o.tshape = a.tshape) && a.tshape.1 + a.tshape.2 = 1 then
      -- all arguments are 1-tensors
      let covariant := a.tshape.1 > 0
      let e := epsNode n (!covariant)
      let edges := args.map fun o => if covariant then (o.node, e) else (e, o.node)
      (runDiagram args n edges).map ofSpec
    else match rest with
    | [b] =>
      if (a.kind = .line && b.kind = .plane) || (b.kind = .line && a.kind = .plane) then
        let e := epsNode n true
        let edges := List.replicate a.tshape.2 (e, a.node) ++ List.replicate b.tshape.2 (e, b.node)
        (runDiagram args n edges).map ofSpec
      else if (a.kind = .line || a.kind = .plane) && b.kind = .point then
        -- `a * b` = TensorDiagram((b, a))
        (runDiagram args n [(b.node, a.node)]).map ofSpec
      else if a.kind = .point && (b.kind = .line || b.kind = .plane) then
        (runDiagram args n [(a.node, b.node)]).map ofSpec
      else if a.kind = .line && b.kind = .line then
        let e := epsNode n true
        let edges := List.replicate a.tshape.2 (e, a.node) ++ List.replicate (n - a.tshape.2) (e, b.node)
        match runDiagram args n edges with
        | .error er => .error er
        | .ok r =>
          let mask := isZeroMask r.1 r.2.nFree
          if mask.2.all id then
            -- Blinn: ε_{ijkl} L^{ij} M^{km}
            match runDiagram args n (List.replicate a.tshape.2 (e, a.node) ++ [(e, b.node)]) with
            | .error er => .error er
            | .ok rb =>
              let arr := rb.1
              let nf := rb.2.nFree
              let fs := arr.shape.take nf
              let inner := arr.shape.drop nf        -- [n, n]
              let m := inner.getD 1 0
              let pick (pos : List Nat) : List α :=
                let sl := arr.slice pos
                let k := argmaxBy absLe sl.data.toList
                let i0 := k / m
                let i1 := k % m
                if !intersectLines then (List.range m).map fun c => sl.get [i0, c]
                else (List.range (inner.getD 0 0)).map fun r => sl.get [r, i1]
              let data := (Tens.allIndices fs).flatMap pick
              let len := if !intersectLines then m else inner.getD 0 0
              if !intersectLines then .ok ⟨⟨fs ++ [len], data.toArray⟩, nf, 0, 1⟩
              else .ok ⟨⟨fs ++ [len], data.toArray⟩, nf, 1, 0⟩
          else if intersectLines || n = 4 then .error .notCoplanar
          else if mask.2.any id && (a.nfree > 0 || b.nfree > 0) then .error .geometryException
          else .ok (ofSpec r)
      else .error .valueError
    | _ => .error .valueError

/-- `LineTensor.contravariant_tensor` of a covariant 3-D line: ε^{ijkl} ℓ_{ij} -/
def contravariantTensor (l : GObj α) : Except JMErr (GObj α) :=
  if l.tshape.2 > 0 then .ok l else
  let e := epsNode 4 false
  (runDiagram [l] 4 [(l.node, e), (l.node, e)]).map fun r =>
    ⟨l.id + 1, .line, false, r.2.nFree, r.1⟩

/-- `LineTensor.covariant_tensor` of a contravariant 3-D line: ε_{ijkl} L^{ij} -/
def covariantTensor (l : GObj α) : Except JMErr (GObj α) :=
  if l.tshape.1 > 0 then .ok l else
  let e := epsNode 4 true
  (runDiagram [l] 4 [(e, l.node), (e, l.node)]).map fun r =>
    ⟨l.id + 1, .line, true, r.2.nFree, r.1⟩

/-- `_join_meet_duality` with `check_dependence=True`; the power-of-two normalisation is a
    multiplication by a non-zero scalar and is left out (projective class unchanged) -/
def joinMeet (absLe : α → α → Bool) (args : List (GObj α)) (intersectLines : Bool) :
    Except JMErr (GObj α) :=
  match joinMeetRaw absLe args intersectLines with
  | .error e => .error e
  | .ok r =>
    let n := (args.headD ⟨0, .point, true, 0, ⟨[], #[]⟩⟩).n
    let mask := isZeroMask r.t r.nfree
    if mask.2.any id then .error (.linearDependence mask.1 mask.2)
    else if (r.ncov, r.ncon) = (0, 1) then .ok ⟨0, if n = 3 then .line else .plane, false, r.nfree, r.t⟩
    else if (r.ncov, r.ncon) = (1, 0) then .ok ⟨0, .point, true, r.nfree, r.t⟩
    else if (r.ncov, r.ncon) = (2, 0) then contravariantTensor ⟨0, .line, true, r.nfree, r.t⟩
    else if (r.ncov, r.ncon) = (0, n - 2) then .ok ⟨0, .line, false, r.nfree, r.t⟩
    else .error .runtimeError

def join (absLe : α → α → Bool) (args : List (GObj α)) := joinMeet absLe args false
def meet (absLe : α → α → Bool) (args : List (GObj α)) := joinMeet absLe args true

/-- `LineTensor.is_coplanar` -/
def isCoplanar (a b : GObj α) : Except JMErr (List Nat × List Bool) :=
  if a.n = 3 then .ok (a.freeShape, (Tens.allIndices a.freeShape).map fun _ => true) else
  let e := epsNode a.n true
  (runDiagram [a, b] a.n (List.replicate (a.n - 2) (e, a.node) ++ List.replicate (a.n - 2) (e, b.node))).map
    fun r => isZeroMask r.1 r.2.nFree

/-- `SubspaceTensor.contains` (exact zero test) -/
def contains (s o : GObj α) : Except JMErr (List Nat × List Bool) :=
  if o.kind = .point then
    (runDiagram [s, o] s.n [(o.node, s.node)]).map fun r => isZeroMask r.1 r.2.nFree
  else if o.kind = .line then
    match covariantTensor o with
    | .error e => .error e
    | .ok oc =>
      let oc := if oc.id = s.id then { oc with id := s.id + 7 } else oc
      (runDiagram [s, oc] s.n [(oc.node, s.node)]).map fun r => isZeroMask r.1 r.2.nFree
  else .error .valueError

end
end Geo
